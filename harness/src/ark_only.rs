//! Suites that exist only in the arkworks build: R1CS gadgets (C13), adversarial hints (C14),
//! circuit shape and the pinned Groth16 keys (C15), the BLS12-377 engine (C16).
use crate::common::*;
use crate::curve::{fq_bytes, fq_from, load_alphabet, rep, scalar_alphabet, Machine, NREG};
use ark_ec::{AffineRepr, CurveGroup};
use ark_ff::{One, Zero};
use ark_r1cs_std::prelude::*;
use ark_r1cs_std::R1CSVar;
use ark_relations::r1cs::{
    ConstraintSynthesizer, ConstraintSystem, ConstraintSystemRef, OptimizationGoal, SynthesisError, SynthesisMode,
};
use decaf377::r1cs::fqvar_ext::FqVarExtension;
use decaf377::r1cs::{ElementVar, FqVar};
use decaf377::{Element, Fq, Fr};
use rand_chacha::ChaCha20Rng;
use rand_core::RngCore;
use serde_json::{json, Value};
use std::io::Write;

type Affine = <Element as CurveGroup>::Affine;

pub struct Run {
    pub sat: Option<bool>,
    pub nc: usize,
    pub ni: usize,
    pub nw: usize,
    pub mh: u64,
    pub out: Value,
    pub err: Option<String>,
}

fn matrices_hash(cs: &ConstraintSystemRef<Fq>) -> u64 {
    use std::hash::{Hash, Hasher};
    let mut h = std::collections::hash_map::DefaultHasher::new();
    if let Some(m) = cs.to_matrices() {
        for mat in [&m.a, &m.b, &m.c] {
            mat.len().hash(&mut h);
            for row in mat.iter() {
                row.len().hash(&mut h);
                for (coeff, idx) in row.iter() {
                    coeff.to_bytes_le().hash(&mut h);
                    idx.hash(&mut h);
                }
            }
        }
        m.num_instance_variables.hash(&mut h);
        m.num_witness_variables.hash(&mut h);
    }
    h.finish()
}

/// Synthesize `f` on a fresh constraint system (prove or setup mode), optionally with the
/// prover hint of every isqrt replaced, and report satisfaction, output and shape.
pub fn run_gadget(
    setup: bool,
    hint: Option<(bool, Fq)>,
    f: impl FnOnce(ConstraintSystemRef<Fq>) -> Result<Value, SynthesisError>,
) -> Run {
    let cs = ConstraintSystem::<Fq>::new_ref();
    cs.set_optimization_goal(OptimizationGoal::Constraints);
    cs.set_mode(if setup { SynthesisMode::Setup } else { SynthesisMode::Prove { construct_matrices: true } });
    decaf377::r1cs::verif_hooks::set_isqrt_hint(hint);
    let res = guarded(|| f(cs.clone()));
    decaf377::r1cs::verif_hooks::set_isqrt_hint(None);
    let (out, err) = match res {
        Ok(Ok(v)) => (v, None),
        Ok(Err(e)) => (json!({}), Some(format!("{:?}", e))),
        Err(p) => (json!({}), Some(format!("panic: {}", p))),
    };
    cs.finalize();
    let sat = if setup || err.is_some() { None } else { cs.is_satisfied().ok() };
    Run {
        sat,
        nc: cs.num_constraints(),
        ni: cs.num_instance_variables(),
        nw: cs.num_witness_variables(),
        mh: matrices_hash(&cs),
        out,
        err,
    }
}

// unavailable values (setup mode, or coordinates that are not a curve point: arkworks'
// `Affine::new` asserts) are logged as empty arrays -- never JSON null
fn elt_value(v: &ElementVar) -> Value {
    match guarded(|| v.value()) {
        Ok(Ok(e)) => rep(&e),
        _ => json!([]),
    }
}
fn fq_value(v: &FqVar) -> Value {
    match guarded(|| v.value()) {
        Ok(Ok(x)) => json!(fq_bytes(&x)),
        _ => json!([]),
    }
}
fn bool_value(v: &Boolean<Fq>) -> Value {
    match guarded(|| v.value()) {
        Ok(Ok(x)) => json!([x]),
        _ => json!([]),
    }
}

#[derive(Clone, Copy, PartialEq)]
pub enum Mode {
    Constant,
    Witness,
    Input,
}
impl Mode {
    fn name(&self) -> &'static str {
        match self {
            Mode::Constant => "constant",
            Mode::Witness => "witness",
            Mode::Input => "input",
        }
    }
    fn am(&self) -> AllocationMode {
        match self {
            Mode::Constant => AllocationMode::Constant,
            Mode::Witness => AllocationMode::Witness,
            Mode::Input => AllocationMode::Input,
        }
    }
}
const MODES: [Mode; 3] = [Mode::Constant, Mode::Witness, Mode::Input];

fn alloc_elt(cs: &ConstraintSystemRef<Fq>, e: Element, m: Mode) -> Result<ElementVar, SynthesisError> {
    ElementVar::new_variable(cs.clone(), || Ok(e), m.am())
}
fn alloc_fq(cs: &ConstraintSystemRef<Fq>, x: Fq, m: Mode) -> Result<FqVar, SynthesisError> {
    FqVar::new_variable(cs.clone(), || Ok(x), m.am())
}

#[derive(Clone)]
pub struct Ins {
    pub p: Element,
    pub q: Element,
    pub s: Fq,
    pub k: Vec<u8>,
    pub cond: bool,
}

pub const ELT_GADGETS: &[&str] = &[
    "compress", "add:E+E", "add:E+&E", "add:E+=E", "add:E+=&E", "add:E+const", "add:E+=const", "sub:E-E", "sub:E-&E",
    "sub:E-=E", "sub:E-=&E", "sub:E-const", "sub:E-=const", "neg", "double", "scalar_mul_le", "is_eq", "is_neq",
    "enforce_equal", "enforce_not_equal", "conditional_enforce_equal", "conditional_enforce_not_equal", "select",
    "alloc:Element", "alloc:AffinePoint", "alloc:omit_prime_order_check", "zero", "constant",
];
pub const FQ_GADGETS: &[&str] = &["decompress", "elligator", "isqrt", "is_negative", "is_nonnegative", "abs", "alloc:Fq"];

/// one gadget synthesis: inputs allocated in `m`, gadget applied, output value(s) reported
fn synth(g: &str, cs: ConstraintSystemRef<Fq>, i: &Ins, m: Mode) -> Result<Value, SynthesisError> {
    let bits_of = |cs: &ConstraintSystemRef<Fq>, k: &[u8]| -> Result<Vec<Boolean<Fq>>, SynthesisError> {
        let bytes = UInt8::new_witness_vec(cs.clone(), k)?;
        let mut bits = Vec::new();
        for b in bytes.iter() {
            bits.extend(b.to_bits_le()?);
        }
        Ok(bits)
    };
    Ok(match g {
        "compress" => {
            let p = alloc_elt(&cs, i.p, m)?;
            let s = p.compress_to_field()?;
            json!({"fq": fq_value(&s)})
        }
        "decompress" => {
            let s = alloc_fq(&cs, i.s, m)?;
            let e = ElementVar::decompress_from_field(s)?;
            json!({"elt": elt_value(&e)})
        }
        "elligator" => {
            let s = alloc_fq(&cs, i.s, m)?;
            let e = ElementVar::encode_to_curve(&s)?;
            json!({"elt": elt_value(&e)})
        }
        "isqrt" => {
            let s = alloc_fq(&cs, i.s, m)?;
            let (flag, y) = s.isqrt()?;
            json!({"flag": bool_value(&flag), "fq": fq_value(&y)})
        }
        "is_negative" => {
            let s = alloc_fq(&cs, i.s, m)?;
            json!({"bool": bool_value(&s.is_negative()?)})
        }
        "is_nonnegative" => {
            let s = alloc_fq(&cs, i.s, m)?;
            json!({"bool": bool_value(&s.is_nonnegative()?)})
        }
        "abs" => {
            let s = alloc_fq(&cs, i.s, m)?;
            json!({"fq": fq_value(&s.abs()?)})
        }
        "alloc:Fq" => {
            // an ElementVar allocated from its field encoding (lazy: nothing is decoded until used)
            let e: ElementVar = AllocVar::<Fq, Fq>::new_variable(cs.clone(), || Ok(i.s), m.am())?;
            let enc = e.compress_to_field()?;
            json!({"fq": fq_value(&enc)})
        }
        "add:E+E" | "add:E+&E" | "add:E+=E" | "add:E+=&E" | "sub:E-E" | "sub:E-&E" | "sub:E-=E" | "sub:E-=&E" => {
            let p = alloc_elt(&cs, i.p, m)?;
            let q = alloc_elt(&cs, i.q, m)?;
            let r = match g {
                "add:E+E" => p + q,
                "add:E+&E" => p + &q,
                "add:E+=E" => {
                    let mut x = p;
                    x += q;
                    x
                }
                "add:E+=&E" => {
                    let mut x = p;
                    x += &q;
                    x
                }
                "sub:E-E" => p - q,
                "sub:E-&E" => p - &q,
                "sub:E-=E" => {
                    let mut x = p;
                    x -= q;
                    x
                }
                _ => {
                    let mut x = p;
                    x -= &q;
                    x
                }
            };
            json!({"elt": elt_value(&r)})
        }
        "add:E+const" | "add:E+=const" | "sub:E-const" | "sub:E-=const" => {
            let p = alloc_elt(&cs, i.p, m)?;
            let r = match g {
                "add:E+const" => p + i.q,
                "add:E+=const" => {
                    let mut x = p;
                    x += i.q;
                    x
                }
                "sub:E-const" => p - i.q,
                _ => {
                    let mut x = p;
                    x -= i.q;
                    x
                }
            };
            json!({"elt": elt_value(&r)})
        }
        "neg" => {
            let p = alloc_elt(&cs, i.p, m)?;
            json!({"elt": elt_value(&p.negate()?)})
        }
        "double" => {
            let mut p = alloc_elt(&cs, i.p, m)?;
            p.double_in_place()?;
            json!({"elt": elt_value(&p)})
        }
        "scalar_mul_le" => {
            let p = alloc_elt(&cs, i.p, m)?;
            let bits = bits_of(&cs, &i.k)?;
            let r = p.scalar_mul_le(bits.iter())?;
            json!({"elt": elt_value(&r)})
        }
        "is_eq" | "is_neq" => {
            let p = alloc_elt(&cs, i.p, m)?;
            let q = alloc_elt(&cs, i.q, m)?;
            let b = if g == "is_eq" { p.is_eq(&q)? } else { p.is_neq(&q)? };
            json!({"bool": bool_value(&b)})
        }
        "enforce_equal" => {
            let p = alloc_elt(&cs, i.p, m)?;
            let q = alloc_elt(&cs, i.q, m)?;
            p.enforce_equal(&q)?;
            json!({})
        }
        "enforce_not_equal" => {
            let p = alloc_elt(&cs, i.p, m)?;
            let q = alloc_elt(&cs, i.q, m)?;
            p.enforce_not_equal(&q)?;
            json!({})
        }
        "conditional_enforce_equal" | "conditional_enforce_not_equal" => {
            let p = alloc_elt(&cs, i.p, m)?;
            let q = alloc_elt(&cs, i.q, m)?;
            let c = Boolean::new_witness(cs.clone(), || Ok(i.cond))?;
            if g == "conditional_enforce_equal" {
                p.conditional_enforce_equal(&q, &c)?;
            } else {
                p.conditional_enforce_not_equal(&q, &c)?;
            }
            json!({})
        }
        "select" => {
            let p = alloc_elt(&cs, i.p, m)?;
            let q = alloc_elt(&cs, i.q, m)?;
            let c = Boolean::new_witness(cs.clone(), || Ok(i.cond))?;
            let r = ElementVar::conditionally_select(&c, &p, &q)?;
            json!({"elt": elt_value(&r)})
        }
        "alloc:Element" => {
            let p = alloc_elt(&cs, i.p, m)?;
            json!({"elt": elt_value(&p)})
        }
        "alloc:AffinePoint" => {
            let a = Affine::from(i.p);
            let p: ElementVar = AllocVar::<Affine, Fq>::new_variable(cs.clone(), || Ok(a), m.am())?;
            json!({"elt": elt_value(&p)})
        }
        "alloc:omit_prime_order_check" => {
            let p = ElementVar::new_variable_omit_prime_order_check(cs.clone(), || Ok(i.p), m.am())?;
            json!({"elt": elt_value(&p)})
        }
        "zero" => json!({"elt": elt_value(&<ElementVar as CurveVar<Element, Fq>>::zero())}),
        "constant" => json!({"elt": elt_value(&<ElementVar as CurveVar<Element, Fq>>::constant(i.p))}),
        _ => return Err(SynthesisError::Unsatisfiable),
    })
}

fn emit_run(out: &mut dyn Write, kind: &str, g: &str, m: Mode, setup: bool, i: &Ins, hint: Option<(bool, Fq)>, r: &Run, extra: Value) {
    let mut ev = json!({
        "k": kind, "g": g, "mode": m.name(), "synth": if setup { "setup" } else { "prove" },
        "p": rep(&i.p), "q": rep(&i.q), "s": fq_bytes(&i.s), "kb": i.k, "cond": i.cond,
        "sat": r.sat.unwrap_or(false), "has_sat": r.sat.is_some(), "out": r.out, "nc": r.nc, "ni": r.ni, "nw": r.nw,
        "mh": r.mh.to_le_bytes().to_vec(), "err": r.err.clone().unwrap_or_default(),
    });
    if let Some((f, y)) = hint {
        ev["hflag"] = json!(f);
        ev["hy"] = json!(fq_bytes(&y));
    }
    if let Value::Object(mm) = extra {
        for (k, v) in mm {
            ev[k] = v;
        }
    }
    emit(out, ev);
}

fn alphabet(r: &mut ChaCha20Rng) -> [Element; NREG] {
    let mut sink: Vec<u8> = Vec::new();
    let mut m = Machine::new(&mut sink);
    load_alphabet(&mut m, r);
    m.regs
}

/// 32-byte scalars on which an LSB-first double-and-add over the prime-order group meets an exceptional
/// operand relation: at bit i, with acc = (k mod 2^i)*B and M = 2^i*B, one of acc = 0, acc = +-M (equal / opposite
/// operands), acc = +-M/2, acc = +-2M (so that acc + M = +-acc or +-M: a select between equal or opposite values).
/// That is k mod 2^i = c (mod r) for c in {0, +-2^i, +-2^(i-1), +-2^(i+1)}, possible only for i >= 248
/// (2^250 < r < 2^251); for each i the smallest few representatives v = c + m*r below 2^i are used, with bit i
/// clear and set.
pub fn exceptional_scalars() -> Vec<Vec<u8>> {
    use ark_ff::{Field, PrimeField};
    let r = R_LE.to_vec();
    let mut v: Vec<Vec<u8>> = Vec::new();
    let fit = |x: &[u8]| -> Vec<u8> {
        let mut y = x.to_vec();
        y.resize(32, 0);
        y
    };
    for i in 248..=255usize {
        let p2 = le_pow2(i, 33);
        let two = Fr::from(2u64);
        let mut targets: Vec<Fr> = vec![Fr::from(0u64)];
        for e in [i - 1, i, i + 1] {
            let t = two.pow([e as u64]);
            targets.push(t);
            targets.push(-t);
        }
        for c in targets {
            let mut val = c.to_bytes_le().to_vec();
            val.resize(33, 0);
            for _m in 0..3 {
                if !le_less(&val, &p2) {
                    break;
                }
                v.push(fit(&val));
                if i < 255 {
                    v.push(fit(&le_add(&val, &p2)));
                }
                val = fit33(le_add(&val, &r));
            }
        }
    }
    v.sort();
    v.dedup();
    v
}
fn fit33(x: Vec<u8>) -> Vec<u8> {
    let mut y = x;
    y.resize(33, 0);
    y
}

fn rand_fq(r: &mut ChaCha20Rng) -> Fq {
    fq_from(&rbytes(r, 48))
}

fn fq_inputs(r: &mut ChaCha20Rng, n: usize) -> Vec<(Fq, &'static str)> {
    let al = alphabet(r);
    let mut v: Vec<(Fq, &'static str)> = vec![
        (Fq::zero(), "zero"),
        (Fq::one(), "one"),
        (-Fq::one(), "minus_one"),
        (Fq::from(2u64), "two"),
        (Fq::from(8u64), "eight"),
        (-Fq::from(8u64), "minus_eight"),
        (decaf377::ZETA, "zeta"),
    ];
    for e in al.iter() {
        v.push((e.vartime_compress_to_field(), "valid_encoding"));
        v.push((-e.vartime_compress_to_field(), "negated_encoding"));
        v.push((e.vartime_compress_to_field() + Fq::from(2u64), "shifted_encoding"));
    }
    for _ in 0..n {
        v.push((rand_fq(r), "random"));
        let e = Element::encode_to_curve(&rand_fq(r));
        v.push((e.vartime_compress_to_field(), "valid_encoding"));
    }
    v
}

/// C13: honest synthesis of every gadget x allocation mode x inputs
fn gadgets(out: &mut dyn Write, r: &mut ChaCha20Rng, n: usize) {
    emit(out, json!({"k":"reset","build":BUILD}));
    let al = alphabet(r);
    let sa = scalar_alphabet();
    let ex = exceptional_scalars();
    let mut cnt = 0usize;
    for g in ELT_GADGETS {
        for m in MODES {
            if m == Mode::Input && (g.starts_with("alloc:omit") || *g == "alloc:AffinePoint" && false) {
                continue;
            }
            let npairs = if g.starts_with("scalar_mul") { 9 } else { 14 + n / 10 };
            for t in 0..npairs {
                cnt += 1;
                if cnt % 60 == 0 {
                    emit(out, json!({"k":"reset","build":BUILD}));
                }
                let p = if t < NREG { al[t % NREG] } else { Element::encode_to_curve(&rand_fq(r)) };
                let q = match t % 5 {
                    0 => p,
                    1 => -p,
                    2 => al[(t * 3 + 1) % NREG],
                    3 => Element::verif_from_raw({
                        let c = p.verif_raw();
                        [-c[0], -c[1], c[2], c[3]]
                    }),
                    _ => Element::encode_to_curve(&rand_fq(r)),
                };
                let k = if t == 0 { vec![0u8; 1] } else if t == 1 { sa[cnt % sa.len()].clone() } else if t >= 3 && g.starts_with("scalar_mul") { ex[(cnt * 7 + t) % ex.len()].clone() } else { let nb = 1 + below(r, 3); rbytes(r, nb) };
                let ins = Ins { p, q, s: Fq::zero(), k, cond: cnt % 2 == 0 };
                if m == Mode::Input && !matches!(*g, "compress" | "alloc:Element" | "alloc:AffinePoint" | "neg" | "add:E+E" | "is_eq" | "enforce_equal" | "select") {
                    continue;
                }
                let run = run_gadget(false, None, |cs| synth(g, cs, &ins, m));
                emit_run(out, "gadget", g, m, false, &ins, None, &run, json!({}));
            }
        }
    }
    emit(out, json!({"k":"reset","build":BUILD}));
    let fin = fq_inputs(r, n / 4 + 2);
    for g in FQ_GADGETS {
        for m in MODES {
            for (t, (s, class)) in fin.iter().enumerate() {
                cnt += 1;
                if cnt % 60 == 0 {
                    emit(out, json!({"k":"reset","build":BUILD}));
                }
                if m != Mode::Witness && t % 3 != 0 {
                    continue;
                }
                let ins = Ins { p: Element::IDENTITY, q: Element::IDENTITY, s: *s, k: vec![], cond: false };
                let run = run_gadget(false, None, |cs| synth(g, cs, &ins, m));
                emit_run(out, "gadget", g, m, false, &ins, None, &run, json!({"class": class}));
            }
        }
    }
}

/// C13: every order and repetition of forcing the lazily evaluated encoding / element.
/// ops: "C" = compress_to_field(), "E" = cs() (forces the element, adds nothing else), "V" = value()
fn lazy(out: &mut dyn Write, r: &mut ChaCha20Rng, seqs: &[String]) {
    emit(out, json!({"k":"reset","build":BUILD}));
    let al = alphabet(r);
    let mut cnt = 0usize;
    for from in ["encoding", "element"] {
        for seq in seqs {
            for (ci, class) in ["valid", "identity", "invalid", "random_valid"].iter().enumerate() {
                if *class == "invalid" && from == "element" {
                    continue;
                }
                let has_mutator = seq.chars().any(|c| !matches!(c, 'C' | 'E' | 'V' | 'Q'));
                if has_mutator && ci != 0 && !(ci == 1 && seq.len() <= 2) {
                    continue;
                }
                cnt += 1;
                if cnt % 40 == 0 {
                    emit(out, json!({"k":"reset","build":BUILD}));
                }
                let e = match ci {
                    0 => al[2 + cnt % 10],
                    1 => al[cnt % 2],
                    _ => Element::encode_to_curve(&rand_fq(r)),
                };
                let s = if *class == "invalid" { e.vartime_compress_to_field() + Fq::one() } else { e.vartime_compress_to_field() };
                let cs = ConstraintSystem::<Fq>::new_ref();
                cs.set_optimization_goal(OptimizationGoal::Constraints);
                cs.set_mode(SynthesisMode::Prove { construct_matrices: true });
                // the second operand of the selections: 2B, allocated from its encoding and forced to hold both the
                // encoding and the element BEFORE the variable under observation exists
                let other: Option<ElementVar> = if seq.contains('S') || seq.contains('T') {
                    guarded(|| {
                        let two_b = Element::GENERATOR + Element::GENERATOR;
                        let w: ElementVar = AllocVar::<Fq, Fq>::new_witness(cs.clone(), || Ok(two_b.vartime_compress_to_field()))?;
                        let _ = w.compress_to_field()?;
                        let _ = w.value()?;
                        let _ = w.negate()?;
                        Ok::<ElementVar, SynthesisError>(w)
                    })
                    .ok()
                    .and_then(|x| x.ok())
                } else {
                    None
                };
                let var: Result<ElementVar, String> = guarded(|| {
                    if from == "encoding" {
                        AllocVar::<Fq, Fq>::new_witness(cs.clone(), || Ok(s)).map_err(|e| format!("{:?}", e))
                    } else {
                        ElementVar::new_witness(cs.clone(), || Ok(e)).map_err(|e| format!("{:?}", e))
                    }
                })
                .and_then(|x| x);
                emit(out, json!({"k":"lazy_new","from":from,"seq":seq,"class":class,"s":fq_bytes(&s),"p":rep(&e),
                    "nc":cs.num_constraints(),"nw":cs.num_witness_variables(),"ok":var.is_ok()}));
                if let Ok(v0) = &var {
                    let mut v: ElementVar = v0.clone();
                    let mut cur: Element = e;
                    let mut mutated = false;
                    for op in seq.chars() {
                        // the value the variable denotes after this call, computed natively
                        let next = match op {
                            'D' => Some(cur + cur),
                            'N' => Some(-cur),
                            'P' => Some(cur + Element::GENERATOR),
                            'M' => Some(cur - Element::GENERATOR),
                            'S' => Some(Element::GENERATOR + Element::GENERATOR),
                            _ => None,
                        };
                        let val = match op {
                            'C' => guarded(|| v.compress_to_field().map(|x| json!({"fq": fq_value(&x)}))),
                            'E' => guarded(|| {
                                let _ = v.cs();
                                Ok(json!({}))
                            }),
                            'V' => guarded(|| Ok(json!({"elt": elt_value(&v)}))),
                            // in-place group operations: the variable must afterwards denote the new element
                            'D' => guarded(|| v.double_in_place().map(|_| json!({}))),
                            'N' => guarded(|| {
                                let n = v.negate()?;
                                v = n;
                                Ok(json!({}))
                            }),
                            'P' => guarded(|| {
                                v += Element::GENERATOR;
                                Ok(json!({}))
                            }),
                            'M' => guarded(|| {
                                v -= Element::GENERATOR;
                                Ok(json!({}))
                            }),
                            // equality enforced against a SECOND variable allocated from the same value in the same way
                            // (from the same encoding, still undecoded / from the same element): forces the element
                            'Q' => guarded(|| {
                                // (the twin holds the variable's CURRENT value, tracked natively; while no in-place
                                //  operation has happened that is the original encoding, valid or not)
                                let w2: ElementVar = if from == "encoding" {
                                    let enc = if mutated { cur.vartime_compress_to_field() } else { s };
                                    AllocVar::<Fq, Fq>::new_witness(cs.clone(), || Ok(enc))?
                                } else {
                                    ElementVar::new_witness(cs.clone(), || Ok(cur))?
                                };
                                v.enforce_equal(&w2)?;
                                Ok(json!({}))
                            }),
                            // conditional selection against the second variable: 'S' takes it, 'T' keeps v
                            _ => guarded(|| {
                                let w = other.clone().ok_or(SynthesisError::AssignmentMissing)?;
                                let c = Boolean::new_witness(cs.clone(), || Ok(op == 'T'))?;
                                let sel = ElementVar::conditionally_select(&c, &v, &w)?;
                                v = sel;
                                Ok(json!({}))
                            }),
                        };
                        if let Some(nx) = next {
                            cur = nx;
                            mutated = true;
                        }
                        let mut ev = json!({"k":"lazy_op","op": op.to_string(), "nc": cs.num_constraints(), "nw": cs.num_witness_variables()});
                        match val {
                            Ok(Ok(x)) => ev["val"] = x,
                            Ok(Err::<Value, SynthesisError>(e)) => ev["panic"] = json!(format!("{:?}", e)),
                            Err(p) => ev["panic"] = json!(p),
                        }
                        emit(out, ev);
                    }
                }
                // the ORIGINAL variable (of which `v` was a clone) must still denote the original element, whatever was
                // done to the clone (read for element-allocated variables only: reading costs them no constraints)
                if let (Ok(v0), true) = (&var, from == "element") {
                    emit(out, json!({"k":"lazy_orig","elt": elt_value(v0)}));
                }
                cs.finalize();
                let sat = cs.is_satisfied().unwrap_or(false);
                emit(out, json!({"k":"lazy_end","sat":sat,"nc":cs.num_constraints()}));
            }
        }
    }
}

/// C14: substituted prover hints and offered coordinates
fn hints(out: &mut dyn Write, r: &mut ChaCha20Rng, n: usize) {
    emit(out, json!({"k":"reset","build":BUILD}));
    let fin = fq_inputs(r, n);
    let mut cnt = 0usize;
    for g in ["isqrt", "decompress", "elligator", "compress"] {
        for (s, class) in fin.iter() {
            // the gadget's isqrt operand for this input, so that the roots able to satisfy a case equation can be offered
            let den = match g {
                "isqrt" => *s,
                "decompress" => {
                    let ss = s.square();
                    let u1 = Fq::one() - ss;
                    let u2 = u1.square() - Fq::from(4u64 * 3021) * ss;
                    u2 * u1.square()
                }
                _ => rand_fq(r),
            };
            let (f1, y1) = Fq::sqrt_ratio_zeta(&Fq::one(), &den);
            let mut hs: Vec<(bool, Fq)> = vec![
                (true, Fq::zero()),
                (false, Fq::zero()),
                (true, Fq::one()),
                (false, Fq::one()),
                (true, -Fq::one()),
                (false, -Fq::one()),
                (f1, y1),
                (f1, -y1),
                (!f1, y1),
                (!f1, -y1),
                (true, rand_fq(r)),
                (false, rand_fq(r)),
            ];
            // y with y^2 * den = zeta (the other case's root), when it exists
            let (f2, y2) = Fq::sqrt_ratio_zeta(&decaf377::ZETA, &den);
            if f2 {
                hs.push((true, y2));
                hs.push((false, y2));
                hs.push((false, -y2));
            }
            for (hi, h) in hs.iter().enumerate() {
                if *class == "random" && hi > 9 && cnt % 3 != 0 {
                    continue;
                }
                cnt += 1;
                if cnt % 60 == 0 {
                    emit(out, json!({"k":"reset","build":BUILD}));
                }
                let p = if g == "compress" {
                    match Encoding32(*s).decode() {
                        Some(e) => e,
                        None => continue,
                    }
                } else {
                    Element::IDENTITY
                };
                let ins = Ins { p, q: Element::IDENTITY, s: *s, k: vec![], cond: false };
                let run = run_gadget(false, Some(*h), |cs| synth(g, cs, &ins, Mode::Witness));
                emit_run(out, "hint", g, Mode::Witness, false, &ins, Some(*h), &run, json!({"class": class}));
            }
        }
    }
    // bit-decomposition witnesses (sign gadget and every other to_bits call inside the gadgets)
    emit(out, json!({"k":"reset","build":BUILD}));
    let mut nsub = 0usize;
    for g in ["decompress", "compress", "elligator"] {
        for (k, (s, class)) in fin.iter().enumerate() {
            if *class == "random" && k % 2 == 1 {
                continue;
            }
            let p = if g == "compress" {
                match Encoding32(*s).decode() {
                    Some(e) => e,
                    None => continue,
                }
            } else {
                Element::IDENTITY
            };
            let ins = Ins { p, q: Element::IDENTITY, s: *s, k: vec![], cond: false };
            nsub += bit_hints(out, g, &ins, class);
            if nsub % 40 == 39 {
                emit(out, json!({"k":"reset","build":BUILD}));
            }
        }
    }
    // offered coordinates when an element is witnessed: valid points in other scalings, the other coset member,
    // off-curve pairs, on-curve points outside the group
    emit(out, json!({"k":"reset","build":BUILD}));
    let al = alphabet(r);
    for t in 0..(40 + n) {
        let base = if t < NREG { al[t] } else { Element::encode_to_curve(&rand_fq(r)) };
        let c = Affine::from(base).verif_raw();
        let lam = rand_fq(r);
        let (x, y, class) = match t % 6 {
            0 => (c[0], c[1], "valid"),
            1 => (-c[0], -c[1], "valid_other_coset_member"),
            2 => (c[0] * lam, c[1] * lam, "scaled_off_curve"),
            3 => (rand_fq(r), rand_fq(r), "random_off_curve"),
            4 => (c[1], c[0], "swapped"),
            _ => {
                // a curve point outside 2E: solve x from a random y
                let yy = rand_fq(r);
                let num = Fq::one() - yy.square();
                let den = -Fq::one() - Fq::from(3021u64) * yy.square();
                let (sq, xx) = Fq::sqrt_ratio_zeta(&num, &den);
                if sq {
                    (xx, yy, "on_curve_unknown_coset")
                } else {
                    (c[0], c[1], "valid")
                }
            }
        };
        let offered = Element::verif_from_raw([x, y, Fq::one(), x * y]);
        let ins = Ins { p: offered, q: Element::IDENTITY, s: Fq::zero(), k: vec![], cond: false };
        for g in ["alloc:Element", "alloc:AffinePoint"] {
            let run = run_gadget(false, None, |cs| synth(g, cs, &ins, Mode::Witness));
            emit_run(out, "hint", g, Mode::Witness, false, &ins, None, &run, json!({"class": class}));
        }
    }
}

/// C14, bit-decomposition witnesses: after an honest synthesis, every run of 253 consecutive Boolean
/// witnesses whose value c is canonical with c + q < 2^253 is overwritten (one window at a time) by the
/// bits of c + q -- the other 253-bit decomposition of the same field element, of opposite parity --
/// and the system re-evaluated.  The event carries the HONEST output; the specification demands, as for
/// every hint event, that a satisfied system means the native operation accepts and the output is right.
fn bit_hints(out: &mut dyn Write, g: &str, ins: &Ins, class: &str) -> usize {
    use ark_ff::{BigInteger, PrimeField};
    const NB: usize = 253;
    let cs = ConstraintSystem::<Fq>::new_ref();
    cs.set_optimization_goal(OptimizationGoal::Constraints);
    cs.set_mode(SynthesisMode::Prove { construct_matrices: true });
    let res = guarded(|| synth(g, cs.clone(), ins, Mode::Witness));
    let outv = match res {
        Ok(Ok(v)) => v,
        _ => return 0,
    };
    cs.finalize();
    let honest: Vec<Fq> = cs.borrow().unwrap().witness_assignment.clone();
    let nw = honest.len();
    let isb = |x: &Fq| x.is_zero() || x.is_one();
    let mut done = 0usize;
    let mut run = 0usize;
    for end in 0..nw {
        run = if isb(&honest[end]) { run + 1 } else { 0 };
        if run < NB || done >= 6 {
            continue;
        }
        let start = end + 1 - NB;
        let w: Vec<bool> = honest[start..=end].iter().map(|x| x.is_one()).collect();
        for be in [false, true] {
            let le: Vec<bool> = if be { w.iter().rev().cloned().collect() } else { w.clone() };
            let c = <Fq as PrimeField>::BigInt::from_bits_le(&le);
            if c >= Fq::MODULUS {
                continue;
            }
            let mut t = c;
            if t.add_with_carry(&Fq::MODULUS) || t.num_bits() as usize > NB {
                continue;
            }
            let evil = t.to_bits_le();
            {
                let mut inner = cs.borrow_mut().unwrap();
                for i in 0..NB {
                    let b = if be { evil[NB - 1 - i] } else { evil[i] };
                    inner.witness_assignment[start + i] = if b { Fq::one() } else { Fq::zero() };
                }
            }
            let sat = cs.is_satisfied().ok();
            cs.borrow_mut().unwrap().witness_assignment = honest.clone();
            let r = Run { sat, nc: cs.num_constraints(), ni: cs.num_instance_variables(), nw: cs.num_witness_variables(), mh: 0, out: outv.clone(), err: None };
            emit_run(out, "hint", g, Mode::Witness, false, ins, None, &r, json!({"class": class, "bitsub": start, "be": be}));
            done += 1;
        }
    }
    done
}

struct Encoding32(Fq);
impl Encoding32 {
    fn decode(&self) -> Option<Element> {
        decaf377::Encoding(self.0.to_bytes_le()).vartime_decompress().ok()
    }
}

// ---------------------------------------------------------------- C15: circuits and pinned keys
// Verbatim copies of the seven circuits of tests/groth16_gadgets.rs (they live in the test file,
// not in the library; the gadgets they compose are the library's).
#[derive(Clone)]
pub struct DiscreteLogCircuit {
    pub scalar: [u8; 32],
    pub public: Element,
}
impl ConstraintSynthesizer<Fq> for DiscreteLogCircuit {
    fn generate_constraints(self, cs: ConstraintSystemRef<Fq>) -> ark_relations::r1cs::Result<()> {
        let witness_vars = UInt8::new_witness_vec(cs.clone(), &self.scalar)?;
        let compressed_public = self.public.vartime_compress_to_field();
        let public_var: ElementVar = AllocVar::new_input(cs.clone(), || Ok(compressed_public))?;
        let basepoint_var = ElementVar::new_constant(cs, Element::GENERATOR)?;
        let test_public = basepoint_var.scalar_mul_le(witness_vars.to_bits_le()?.iter())?;
        public_var.enforce_equal(&test_public)?;
        Ok(())
    }
}
#[derive(Clone)]
pub struct CompressionCircuit {
    pub point: Element,
    pub field_element: Fq,
}
impl ConstraintSynthesizer<Fq> for CompressionCircuit {
    fn generate_constraints(self, cs: ConstraintSystemRef<Fq>) -> ark_relations::r1cs::Result<()> {
        let witness_var = ElementVar::new_witness(cs.clone(), || Ok(self.point))?;
        let public_var = FqVar::new_input(cs, || Ok(self.field_element))?;
        let test_public = witness_var.compress_to_field()?;
        public_var.enforce_equal(&test_public)?;
        Ok(())
    }
}
#[derive(Clone)]
pub struct DecompressionCircuit {
    pub field_element: Fq,
    pub point: Element,
}
impl ConstraintSynthesizer<Fq> for DecompressionCircuit {
    fn generate_constraints(self, cs: ConstraintSystemRef<Fq>) -> ark_relations::r1cs::Result<()> {
        let witness_var = FqVar::new_witness(cs.clone(), || Ok(self.field_element))?;
        let compressed_public = self.point.vartime_compress_to_field();
        let public_var: ElementVar = AllocVar::new_input(cs, || Ok(compressed_public))?;
        let test_public = ElementVar::decompress_from_field(witness_var)?;
        public_var.enforce_equal(&test_public)?;
        Ok(())
    }
}
#[derive(Clone)]
pub struct ElligatorCircuit {
    pub field_element: Fq,
    pub point: Element,
}
impl ConstraintSynthesizer<Fq> for ElligatorCircuit {
    fn generate_constraints(self, cs: ConstraintSystemRef<Fq>) -> ark_relations::r1cs::Result<()> {
        let witness_var = FqVar::new_witness(cs.clone(), || Ok(self.field_element))?;
        let public_var: ElementVar = AllocVar::new_input(cs, || Ok(self.point))?;
        let test_public = ElementVar::encode_to_curve(&witness_var)?;
        public_var.enforce_equal(&test_public)?;
        Ok(())
    }
}
#[derive(Clone)]
pub struct PublicElementInput {
    pub point: Element,
}
impl ConstraintSynthesizer<Fq> for PublicElementInput {
    fn generate_constraints(self, cs: ConstraintSystemRef<Fq>) -> ark_relations::r1cs::Result<()> {
        let _public_var: ElementVar = AllocVar::new_input(cs, || Ok(self.point))?;
        Ok(())
    }
}
/// the same public input allocated from the AFFINE form of the element
#[derive(Clone)]
pub struct PublicAffineInput {
    pub point: Element,
}
impl ConstraintSynthesizer<Fq> for PublicAffineInput {
    fn generate_constraints(self, cs: ConstraintSystemRef<Fq>) -> ark_relations::r1cs::Result<()> {
        let a = Affine::from(self.point);
        let _public_var: ElementVar = AllocVar::<Affine, Fq>::new_input(cs, || Ok(a))?;
        Ok(())
    }
}
#[derive(Clone)]
pub struct NegationCircuit {
    pub pos: Element,
    pub public_neg: Element,
}
impl ConstraintSynthesizer<Fq> for NegationCircuit {
    fn generate_constraints(self, cs: ConstraintSystemRef<Fq>) -> ark_relations::r1cs::Result<()> {
        let pos = ElementVar::new_witness(cs.clone(), || Ok(self.pos))?;
        let public_neg = ElementVar::new_input(cs, || Ok(self.public_neg))?;
        let neg: ElementVar = pos.negate()?;
        neg.enforce_equal(&public_neg)?;
        Ok(())
    }
}
#[derive(Clone)]
pub struct AddAssignAddCircuit {
    pub a: Element,
    pub b: Element,
    pub c: Element,
    pub d: Element,
}
impl ConstraintSynthesizer<Fq> for AddAssignAddCircuit {
    fn generate_constraints(self, cs: ConstraintSystemRef<Fq>) -> ark_relations::r1cs::Result<()> {
        let a = ElementVar::new_witness(cs.clone(), || Ok(self.a))?;
        let b = ElementVar::new_witness(cs.clone(), || Ok(self.b))?;
        let c_pub = ElementVar::new_input(cs.clone(), || Ok(self.c))?;
        let c_add = a.clone() + b.clone();
        let mut c_add_assign = a.clone();
        c_add_assign += b.clone();
        c_add.enforce_equal(&c_pub)?;
        c_add_assign.enforce_equal(&c_pub)?;
        let d_pub = ElementVar::new_input(cs, || Ok(self.d))?;
        let d_sub = a.clone() - b.clone();
        let mut d_sub_assign = a.clone();
        d_sub_assign -= b;
        d_sub.enforce_equal(&d_pub)?;
        d_sub_assign.enforce_equal(&d_pub)?;
        Ok(())
    }
}

fn circuit_shape<C: ConstraintSynthesizer<Fq>>(c: C, setup: bool) -> Run {
    run_gadget(setup, None, |cs| {
        c.generate_constraints(cs)?;
        Ok(json!({}))
    })
}

fn instance_assignment<C: ConstraintSynthesizer<Fq>>(c: C) -> Vec<Vec<u8>> {
    let cs = ConstraintSystem::<Fq>::new_ref();
    cs.set_optimization_goal(OptimizationGoal::Constraints);
    cs.set_mode(SynthesisMode::Prove { construct_matrices: false });
    let _ = guarded(|| c.generate_constraints(cs.clone()));
    cs.finalize();
    let b = cs.borrow().unwrap();
    b.instance_assignment.iter().map(|x| fq_bytes(x)).collect()
}

fn groth16_case<C: ConstraintSynthesizer<Fq> + Clone>(
    out: &mut dyn Write,
    name: &str,
    c: C,
    publics: &[Element],
    public_fq: Option<Fq>,
    wrong: &[Fq],
    r: &mut ChaCha20Rng,
) {
    use ark_groth16::{r1cs_to_qap::LibsnarkReduction, Groth16, ProvingKey, VerifyingKey};
    use ark_serialize::CanonicalDeserialize;
    use ark_snark::SNARK;
    use ark_ff::ToConstraintField;
    use rand_core::SeedableRng;
    type E = decaf377::Bls12_377;
    let dir = std::env::var("VERIF_REPO").unwrap_or_else(|_| "/repo".to_string()) + "/tests/test_vectors/";
    let pkb = std::fs::read(format!("{}{}_pk.bin", dir, name)).expect("pk");
    let vkb = std::fs::read(format!("{}{}_vk.param", dir, name)).expect("vk");
    let res = guarded(|| {
        let pk = ProvingKey::<E>::deserialize_uncompressed_unchecked(&pkb[..]).expect("pk parse");
        let vk = VerifyingKey::<E>::deserialize_uncompressed(&vkb[..]).expect("vk parse");
        let mut rng = rand_chacha::ChaCha20Rng::seed_from_u64(r.next_u64());
        let proof = Groth16::<E, LibsnarkReduction>::prove(&pk, c.clone(), &mut rng).map_err(|e| format!("{:?}", e))?;
        let pvk = Groth16::<E, LibsnarkReduction>::process_vk(&vk).map_err(|e| format!("{:?}", e))?;
        let mut pi: Vec<Fq> = Vec::new();
        for p in publics {
            pi.extend(p.to_field_elements().unwrap());
        }
        if let Some(f) = public_fq {
            pi.push(f);
        }
        let ok = Groth16::<E, LibsnarkReduction>::verify_with_processed_vk(&pvk, &pi, &proof).map_err(|e| format!("{:?}", e))?;
        let mut rejected_wrong = Vec::new();
        for w in wrong {
            let mut pi2 = pi.clone();
            pi2[0] = *w;
            rejected_wrong.push(!Groth16::<E, LibsnarkReduction>::verify_with_processed_vk(&pvk, &pi2, &proof).map_err(|e| format!("{:?}", e))?);
        }
        Ok::<_, String>((ok, rejected_wrong, pi))
    });
    let inst = instance_assignment(c.clone());
    let pubs: Vec<Value> = publics.iter().map(rep).collect();
    let ev = json!({"k":"groth16","circuit":name,"publics":pubs,"public_fq":public_fq.map(|f| fq_bytes(&f)).unwrap_or_default(),"instance":inst});
    let fin = match res {
        Ok(Ok((ok, rej, pi))) => finish(ev, Ok(json!({"verified":ok,"wrong_rejected":rej,"pi":pi.iter().map(fq_bytes).collect::<Vec<_>>()}))),
        Ok(Err(e)) => finish(ev, Ok(json!({"verified":false,"wrong_rejected":[],"pi":[],"error":e}))),
        Err(p) => finish(ev, Err(p)),
    };
    emit(out, fin);
}

fn circuits(out: &mut dyn Write, r: &mut ChaCha20Rng, n: usize, prove: bool) {
    emit(out, json!({"k":"reset","build":BUILD}));
    let al = alphabet(r);
    let ex = exceptional_scalars();
    for t in 0..n.max(1) {
        let a = if t < NREG { al[t % NREG] } else { Element::encode_to_curve(&rand_fq(r)) };
        let b = if t % 3 == 0 { al[(t + 3) % NREG] } else { Element::encode_to_curve(&rand_fq(r)) };
        let mut scalar = [0u8; 32];
        if t > 0 {
            r.fill_bytes(&mut scalar);
        }
        if t == 1 {
            scalar = [0xff; 32];
        }
        if t >= 2 && t % 2 == 0 {
            scalar.copy_from_slice(&ex[(t / 2 - 1) % ex.len()]);
        }
        let x = rand_fq(r);
        let dl_public = Fr::from_le_bytes_mod_order(&scalar) * Element::GENERATOR;
        // shapes: each circuit in setup and prove mode on this witness
        macro_rules! shape {
            ($name:expr, $c:expr) => {
                for setup in [true, false] {
                    let run = circuit_shape($c, setup);
                    emit(out, json!({"k":"shape","g":format!("circuit:{}", $name),"mode":"circuit","synth":if setup {"setup"} else {"prove"},
                        "nc":run.nc,"ni":run.ni,"nw":run.nw,"mh":run.mh.to_le_bytes().to_vec(),"sat":run.sat.unwrap_or(false),"has_sat":run.sat.is_some(),"err":run.err.clone().unwrap_or_default()}));
                }
            };
        }
        let dl = DiscreteLogCircuit { scalar, public: dl_public };
        let co = CompressionCircuit { point: a, field_element: a.vartime_compress_to_field() };
        let de = DecompressionCircuit { field_element: a.vartime_compress_to_field(), point: a };
        let el = ElligatorCircuit { field_element: x, point: Element::encode_to_curve(&x) };
        let pu = PublicElementInput { point: a };
        let ne = NegationCircuit { pos: a, public_neg: a.negate() };
        let aa = AddAssignAddCircuit { a, b, c: a + b, d: a - b };
        shape!("discrete_log", dl.clone());
        shape!("compression", co.clone());
        shape!("decompression", de.clone());
        shape!("elligator", el.clone());
        shape!("public_element_input", pu.clone());
        shape!("negation", ne.clone());
        shape!("add_assign_add", aa.clone());
        if prove {
            let wrong = [rand_fq(r), a.vartime_compress_to_field() + Fq::one()];
            groth16_case(out, "discrete_log", dl, &[dl_public], None, &wrong, r);
            groth16_case(out, "compression", co.clone(), &[], Some(co.field_element), &wrong, r);
            groth16_case(out, "decompression", de, &[a], None, &wrong, r);
            groth16_case(out, "elligator", el.clone(), &[el.point], None, &wrong, r);
            groth16_case(out, "public_element_input", pu, &[a], None, &wrong, r);
            groth16_case(out, "negation", ne.clone(), &[ne.public_neg], None, &wrong, r);
            groth16_case(out, "add_assign_add", aa.clone(), &[aa.c, aa.d], None, &wrong, r);
        }
    }
}

/// C15: gadget shapes over inputs and synthesis modes
fn shapes(out: &mut dyn Write, r: &mut ChaCha20Rng, n: usize) {
    emit(out, json!({"k":"reset","build":BUILD}));
    let al = alphabet(r);
    let ex = exceptional_scalars();
    for g in ELT_GADGETS.iter().chain(FQ_GADGETS.iter()) {
        for m in MODES {
            if m == Mode::Input && g.starts_with("alloc:omit") {
                continue;
            }
            for t in 0..(4 + n) {
                // values that are embedded in the circuit as constants are part of its shape: keep them fixed
                let p_is_const = m == Mode::Constant || *g == "constant";
                let q_is_const = m == Mode::Constant || g.ends_with("const");
                let p = if p_is_const { al[2] } else if t < 3 { al[t * 2] } else { Element::encode_to_curve(&rand_fq(r)) };
                let q = if q_is_const { al[5] } else if t % 2 == 0 { p } else { Element::encode_to_curve(&rand_fq(r)) };
                let s = if m == Mode::Constant { Fq::from(8u64) } else if FQ_GADGETS.contains(g) && *g != "decompress" && *g != "alloc:Fq" { if t == 0 { Fq::zero() } else { rand_fq(r) } } else { p.vartime_compress_to_field() };
                // the scalar is always 32 bytes here (the number of bits is part of the shape); from t = 2 on it is
                // one on which the in-circuit double-and-add meets equal / opposite / identity operands
                let k = if *g != "scalar_mul_le" { vec![t as u8, 0xff] } else if t < 2 { let mut k = vec![0u8; 32]; k[0] = t as u8; k[1] = 0xff; k } else { ex[(t * 5 + m as usize) % ex.len()].clone() };
                let ins = Ins { p, q, s, k, cond: t % 2 == 0 };
                for setup in [true, false] {
                    if setup && t > 1 {
                        continue;
                    }
                    let run = run_gadget(setup, None, |cs| synth(g, cs, &ins, m));
                    emit(out, json!({"k":"shape","g":g,"mode":m.name(),"synth":if setup {"setup"} else {"prove"},
                        "nc":run.nc,"ni":run.ni,"nw":run.nw,"mh":run.mh.to_le_bytes().to_vec(),"sat":run.sat.unwrap_or(false),"has_sat":run.sat.is_some(),"err":run.err.clone().unwrap_or_default()}));
                }
            }
        }
    }
    // scalar_mul_le in proving mode on EVERY exceptional scalar (one setup-mode reference first), for two bases,
    // and the pinned discrete-log circuit's shape on each of them
    emit(out, json!({"k":"reset","build":BUILD}));
    for (bi, base) in [al[2], al[7]].iter().enumerate() {
        for (j, k) in ex.iter().enumerate() {
            let ins = Ins { p: *base, q: *base, s: base.vartime_compress_to_field(), k: k.clone(), cond: false };
            for setup in [true, false] {
                if setup && j > 0 {
                    continue;
                }
                let run = run_gadget(setup, None, |cs| synth("scalar_mul_le", cs, &ins, Mode::Witness));
                emit(out, json!({"k":"shape","g":"scalar_mul_le","mode":"witness","synth":if setup {"setup"} else {"prove"},
                    "nc":run.nc,"ni":run.ni,"nw":run.nw,"mh":run.mh.to_le_bytes().to_vec(),"sat":run.sat.unwrap_or(false),"has_sat":run.sat.is_some(),"err":run.err.clone().unwrap_or_default()}));
            }
            if bi == 0 {
                let mut scalar = [0u8; 32];
                scalar.copy_from_slice(k);
                let dl = DiscreteLogCircuit { scalar, public: Fr::from_le_bytes_mod_order(&scalar) * Element::GENERATOR };
                for setup in [true, false] {
                    if setup && j > 0 {
                        continue;
                    }
                    let run = circuit_shape(dl.clone(), setup);
                    emit(out, json!({"k":"shape","g":"circuit:discrete_log","mode":"circuit","synth":if setup {"setup"} else {"prove"},
                        "nc":run.nc,"ni":run.ni,"nw":run.nw,"mh":run.mh.to_le_bytes().to_vec(),"sat":run.sat.unwrap_or(false),"has_sat":run.sat.is_some(),"err":run.err.clone().unwrap_or_default()}));
                }
            }
        }
    }
    emit(out, json!({"k":"reset","build":BUILD}));
    // public input: exactly one instance variable, equal to the element's field encoding = ToConstraintField
    for t in 0..(NREG + n) {
        let p = if t < NREG { al[t] } else { Element::encode_to_curve(&rand_fq(r)) };
        let inst = instance_assignment(PublicElementInput { point: p });
        use ark_ff::ToConstraintField;
        let tcf: Vec<Vec<u8>> = p.to_field_elements().unwrap().iter().map(fq_bytes).collect();
        emit(out, json!({"k":"pubinput","p":rep(&p),"instance":inst,"tcf":tcf}));
        // allocated from the affine form: the same single instance variable (a panic leaves the instance incomplete)
        let inst_a = instance_assignment(PublicAffineInput { point: p });
        emit(out, json!({"k":"pubinput","p":rep(&p),"instance":inst_a,"tcf":tcf,"from":"AffinePoint"}));
    }
}

pub fn record(suite: &str, n: usize, seed: u64, arg: &str, out: &mut dyn Write) -> bool {
    let mut r = rng(seed, suite);
    match suite {
        "gadgets" => gadgets(out, &mut r, n),
        "lazy" => {
            let seqs: Vec<String> = if arg.is_empty() {
                vec!["C".into(), "E".into(), "CE".into(), "EC".into(), "CCEV".into(), "VEC".into()]
            } else {
                std::fs::read_to_string(arg).expect("seq file").lines().map(|l| l.trim().to_string()).filter(|l| !l.is_empty()).collect()
            };
            lazy(out, &mut r, &seqs)
        }
        "hints" => hints(out, &mut r, n),
        "shapes" => shapes(out, &mut r, n),
        "circuits" => circuits(out, &mut r, n, false),
        "groth16" => circuits(out, &mut r, n, true),
        "bls" => crate::bls::record(out, &mut r, n),
        "blspts" => crate::bls::points(out, arg),
        _ => return false,
    }
    true
}
