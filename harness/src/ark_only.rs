//! Suites that exist only in the arkworks build (R1CS, Groth16, BLS12-377).
use std::io::Write;
pub fn record(_suite: &str, _n: usize, _seed: u64, _arg: &str, _out: &mut dyn Write) -> bool {
    false
}
