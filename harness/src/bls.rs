//! C16: the BLS12-377 engine instantiated over the crate's own fields versus the reference
//! arkworks engine, both in one binary.  Every observable is logged from both engines; the
//! trace specification (spec/Pairing.tla) requires them byte-identical and consistent with an
//! abstract bilinear group over exponents.
use crate::common::*;
use ark_ec::pairing::Pairing;
use ark_ec::{AffineRepr, CurveGroup, Group};
use ark_ff::{Field, PrimeField};
use ark_serialize::{CanonicalDeserialize, CanonicalSerialize};
use rand_chacha::ChaCha20Rng;
use serde_json::json;
use std::io::Write;

type Ours = decaf377::Bls12_377;
type Refe = ark_bls12_377::Bls12_377;
type SO = <Ours as Pairing>::ScalarField;
type SR = <Refe as Pairing>::ScalarField;

fn ser<T: CanonicalSerialize>(x: &T, compressed: bool) -> Vec<u8> {
    let mut v = Vec::new();
    if compressed {
        x.serialize_compressed(&mut v).unwrap();
    } else {
        x.serialize_uncompressed(&mut v).unwrap();
    }
    v
}

fn scalars(r: &mut ChaCha20Rng, n: usize) -> Vec<Vec<u8>> {
    let q = Q_LE.to_vec();
    let mut v: Vec<Vec<u8>> = vec![
        vec![0; 32],
        le_pow2(0, 32),
        le_add_small(&vec![0; 32], 2),
        le_sub_small(&q, 1),
        le_shr1(&le_sub_small(&q, 1)),
        le_shr1(&le_add_small(&q, 1)),
        le_pow2(64, 32),
        le_sub_small(&le_pow2(64, 32), 1),
        le_pow2(128, 32),
        le_pow2(252, 32),
    ];
    for _ in 0..n {
        let mut b = rbytes(r, 32);
        b[31] &= 0x0f;
        v.push(b);
    }
    v
}

pub fn record(out: &mut dyn Write, r: &mut ChaCha20Rng, n: usize) {
    emit(out, json!({"k":"reset","build":BUILD}));
    constants(out);
    extras(out, r, n);
    emit(out, json!({"k":"reset","build":BUILD}));
    let g1o = <Ours as Pairing>::G1::generator();
    let g2o = <Ours as Pairing>::G2::generator();
    let g1r = <Refe as Pairing>::G1::generator();
    let g2r = <Refe as Pairing>::G2::generator();
    // generators (affine coordinates of G1 as integers, for the curve-equation / order check in the spec)
    {
        let a = g1o.into_affine();
        let (x, y) = a.xy().unwrap();
        let ar = g1r.into_affine();
        let (xr, yr) = ar.xy().unwrap();
        emit(out, json!({"k":"blsgen","grp":"G1","x":x.to_bytes_le().to_vec(),"y":y.to_bytes_le().to_vec(),
            "xr":xr.into_bigint().to_bytes_le_vec(),"yr":yr.into_bigint().to_bytes_le_vec(),
            "ours":ser(&a, true),"ref":ser(&ar, true),"ours_unc":ser(&a, false),"ref_unc":ser(&ar, false)}));
        let b = g2o.into_affine();
        let br = g2r.into_affine();
        let (bx, by) = b.xy().unwrap();
        emit(out, json!({"k":"blsgen","grp":"G2","x":[bx.c0.to_bytes_le().to_vec(), bx.c1.to_bytes_le().to_vec()],
            "y":[by.c0.to_bytes_le().to_vec(), by.c1.to_bytes_le().to_vec()],
            "ours":ser(&b, true),"ref":ser(&br, true),"ours_unc":ser(&b, false),"ref_unc":ser(&br, false)}));
    }
    let sc = scalars(r, n);
    let so = |b: &[u8]| SO::from_le_bytes_mod_order(b);
    let sr = |b: &[u8]| SR::from_le_bytes_mod_order(b);
    // scalar multiplication in G1 and G2, additivity, serialisation in both modes, cross-deserialisation
    for (i, a) in sc.iter().enumerate() {
        if i % 40 == 39 {
            emit(out, json!({"k":"reset","build":BUILD}));
        }
        let b = &sc[(i * 7 + 3) % sc.len()];
        for grp in ["G1", "G2"] {
            let terms = if i % 3 == 0 { vec![a.clone()] } else { vec![a.clone(), b.clone()] };
            macro_rules! go {
                ($G:ident, $go:expr, $gr:expr) => {{
                    let sum_o: SO = terms.iter().map(|t| so(t)).sum();
                    let sum_r: SR = terms.iter().map(|t| sr(t)).sum();
                    let po = ($go * sum_o).into_affine();
                    let pr = ($gr * sum_r).into_affine();
                    let parts_o = terms.iter().fold(<Ours as Pairing>::$G::zero_pt(), |acc, t| acc + $go * so(t)).into_affine();
                    let bytes_o = ser(&po, true);
                    let bytes_r = ser(&pr, true);
                    // cross-deserialisation: each engine reads the other's bytes (both modes) and writes them back
                    let cross = {
                        let a1 = <<Refe as Pairing>::$G as CurveGroup>::Affine::deserialize_compressed(&bytes_o[..]).map(|p| ser(&p, true) == bytes_o).unwrap_or(false);
                        let a2 = <<Ours as Pairing>::$G as CurveGroup>::Affine::deserialize_compressed(&bytes_r[..]).map(|p| ser(&p, true) == bytes_r).unwrap_or(false);
                        let u_o = ser(&po, false);
                        let a3 = <<Refe as Pairing>::$G as CurveGroup>::Affine::deserialize_uncompressed(&u_o[..]).map(|p| ser(&p, false) == u_o).unwrap_or(false);
                        a1 && a2 && a3
                    };
                    // "ground": the specification recomputes this multiple from the generator with its own group law
                    // (every structured scalar, then every fourth one: ~1 s of TLC time each)
                    let mut ev = json!({"k":"blsmul","grp":grp,"terms":terms,"ours":bytes_o,"ref":bytes_r,
                        "ours_unc":ser(&po, false),"ref_unc":ser(&pr, false),"ours_sum":ser(&parts_o, true),"cross":cross});
                    if i < 26 || i % 4 == 0 {
                        ev["ground"] = json!(true);
                    }
                    emit(out, ev);
                }};
            }
            if grp == "G1" {
                go!(G1, g1o, g1r)
            } else {
                go!(G2, g2o, g2r)
            }
        }
    }
    emit(out, json!({"k":"reset","build":BUILD}));
    // operations that use the GENERATOR CONSTANTS as stored (affine mixed additions, sums, MSM bases, equality with
    // a re-parsed copy): a constant kept in a non-canonical internal form behaves like the right value wherever it
    // is multiplied first, and differently wherever its limbs are copied or compared
    {
        let one = le_pow2(0, 32);
        macro_rules! genops {
            ($G:ident, $grp:expr) => {{
                type AO = <<Ours as Pairing>::$G as CurveGroup>::Affine;
                type AR = <<Refe as Pairing>::$G as CurveGroup>::Affine;
                let (go, gr) = (AO::generator(), AR::generator());
                let variants: Vec<(&str, Vec<u8>, Vec<u8>, usize)> = vec![
                    ("G + G (affine + affine)", ser(&(go + go).into_affine(), true), ser(&(gr + gr).into_affine(), true), 2),
                    ("generator() += &G", ser(&{ let mut p = <Ours as Pairing>::$G::generator(); p += &go; p }.into_affine(), true),
                        ser(&{ let mut p = <Refe as Pairing>::$G::generator(); p += &gr; p }.into_affine(), true), 2),
                    ("[G, G, G].iter().sum()", ser(&[go, go, go].iter().sum::<<Ours as Pairing>::$G>().into_affine(), true),
                        ser(&[gr, gr, gr].iter().sum::<<Refe as Pairing>::$G>().into_affine(), true), 3),
                    ("G - G", ser(&(go.into_group() - go).into_affine(), true), ser(&(gr.into_group() - gr).into_affine(), true), 0),
                    ("msm([G, G], [1, 1])", {
                        use ark_ec::VariableBaseMSM;
                        <<Ours as Pairing>::$G as VariableBaseMSM>::msm(&[go, go], &[SO::from(1u64), SO::from(1u64)]).map(|p| ser(&p.into_affine(), true)).unwrap_or_default()
                    }, {
                        use ark_ec::VariableBaseMSM;
                        <<Refe as Pairing>::$G as VariableBaseMSM>::msm(&[gr, gr], &[SR::from(1u64), SR::from(1u64)]).map(|p| ser(&p.into_affine(), true)).unwrap_or_default()
                    }, 2),
                ];
                for (what, o, rf, k) in variants {
                    let terms: Vec<Vec<u8>> = (0..k).map(|_| one.clone()).collect();
                    // logged as a scalar-multiple event with exponent k: same tables, same reference comparison
                    let po = <<Ours as Pairing>::$G as CurveGroup>::Affine::deserialize_compressed(&o[..]);
                    let unc_o = po.as_ref().map(|p| ser(p, false)).unwrap_or_default();
                    let pr = <<Refe as Pairing>::$G as CurveGroup>::Affine::deserialize_compressed(&rf[..]);
                    let unc_r = pr.as_ref().map(|p| ser(p, false)).unwrap_or_default();
                    emit(out, json!({"k":"blsmul","grp":$grp,"what":what,"terms":terms,"ours":o,"ref":rf,"ours_unc":unc_o,"ref_unc":unc_r,
                        "ours_sum":o,"cross":true,"ground":true}));
                }
                // the stored generator equals its own re-parsed copy (limb-wise equality), and so do its coordinates
                let rt_o = AO::deserialize_uncompressed(&ser(&go, false)[..]).map(|p| p == go).unwrap_or(false);
                let rt_r = AR::deserialize_uncompressed(&ser(&gr, false)[..]).map(|p| p == gr).unwrap_or(false);
                emit(out, json!({"k":"blsconst","name":format!("{} generator == deserialize(serialize(generator))", $grp),"ours":[rt_o as u8],"ref":[rt_r as u8]}));
            }};
        }
        genops!(G1, "G1");
        genops!(G2, "G2");
        // Jacobian representatives (x z^2, y z^3, z) of k*G1 whose z has a sparse MONTGOMERY form (2^256, 2^320, 1,
        // p - 1 ...): a limb-wise predicate on coordinates (is it zero? are two equal?) that skips limbs shows here
        {
            type PO = <Ours as Pairing>::G1;
            type PR = <Refe as Pairing>::G1;
            type FO = <Ours as Pairing>::BaseField;
            type FR = <Refe as Pairing>::BaseField;
            for (zi, e) in [128u64, 64, 384, 192, 320, 1].iter().enumerate() {
                for k in [1u64, 2, 5] {
                    let zo = FO::from(2u64).pow([*e]).inverse().unwrap();
                    let zr = FR::from(2u64).pow([*e]).inverse().unwrap();
                    let ao = (g1o * SO::from(k)).into_affine();
                    let ar = (g1r * SR::from(k)).into_affine();
                    let (xo, yo) = ao.xy().unwrap();
                    let (xr, yr) = ar.xy().unwrap();
                    let jo = PO::new_unchecked(*xo * zo * zo, *yo * zo * zo * zo, zo);
                    let jr = PR::new_unchecked(*xr * zr * zr, *yr * zr * zr * zr, zr);
                    // k*G through the special representative, and (k+1)*G as representative + G
                    for (what, o, rf, key) in [
                        ("into_affine", ser(&jo.into_affine(), true), ser(&jr.into_affine(), true), k),
                        ("+ G", ser(&(jo + g1o).into_affine(), true), ser(&(jr + g1r).into_affine(), true), k + 1),
                        ("double", ser(&jo.double().into_affine(), true), ser(&jr.double().into_affine(), true), 2 * k),
                        ("+= affine G", ser(&{ let mut t = jo; t += &g1o.into_affine(); t }.into_affine(), true),
                            ser(&{ let mut t = jr; t += &g1r.into_affine(); t }.into_affine(), true), k + 1),
                    ] {
                        let terms: Vec<Vec<u8>> = (0..key).map(|_| one.clone()).collect();
                        let unc_o = <PO as CurveGroup>::Affine::deserialize_compressed(&o[..]).map(|p| ser(&p, false)).unwrap_or_default();
                        let unc_r = <PR as CurveGroup>::Affine::deserialize_compressed(&rf[..]).map(|p| ser(&p, false)).unwrap_or_default();
                        emit(out, json!({"k":"blsmul","grp":"G1","what":format!("jacobian z=2^-{} #{} {}", e, zi, what),"terms":terms,"ours":o,"ref":rf,
                            "ours_unc":unc_o,"ref_unc":unc_r,"ours_sum":o,"cross":true}));
                    }
                }
            }
        }
    }
    emit(out, json!({"k":"reset","build":BUILD}));
    // non-canonical coordinate strings (uncompressed readers, validated and unchecked)
    for (i, a) in sc.iter().enumerate().take(6 + n / 10) {
        let p1 = (g1o * so(a)).into_affine();
        let p2 = (g2o * so(a)).into_affine();
        if i != 0 {
            raw_events(out, "G1", &ser(&p1, false));
            raw_events(out, "G2", &ser(&p2, false));
        }
        if i % 3 == 1 {
            let gt = Ours::pairing(p1, g2o);
            raw_events(out, "GT", &ser(&gt.0, false));
            if let Some((x, _)) = p1.xy() {
                raw_events(out, "Fp", &ser(x, false));
            }
        }
    }
    emit(out, json!({"k":"reset","build":BUILD}));
    // pairings: (a, b) and other factorisations of the same product
    let gt_o = Ours::pairing(g1o, g2o);
    let gt_r = Refe::pairing(g1r, g2r);
    let mut pairs: Vec<(Vec<u8>, Vec<u8>)> = vec![(sc[0].clone(), sc[1].clone()), (sc[1].clone(), sc[0].clone()), (sc[1].clone(), sc[1].clone())];
    for i in 0..(n / 2 + 6) {
        let a = sc[(i * 3 + 1) % sc.len()].clone();
        let b = sc[(i * 5 + 2) % sc.len()].clone();
        let ab = (so(&a) * so(&b)).to_bytes_le().to_vec();
        pairs.push((a.clone(), b.clone()));
        pairs.push((b.clone(), a.clone()));
        pairs.push((ab.clone(), sc[1].clone()));
        if i % 2 == 0 {
            pairs.push((sc[1].clone(), ab));
        }
    }
    // multi-scalar multiplication in G1 and G2 (3 and 33 terms): bases a_i*G, scalars s_i
    for (j, cnt) in [3usize, 33].iter().enumerate() {
        for grp in ["G1", "G2"] {
            let aas: Vec<Vec<u8>> = (0..*cnt).map(|t| sc[(j * 5 + t * 3 + 1) % sc.len()].clone()).collect();
            let sss: Vec<Vec<u8>> = (0..*cnt).map(|t| sc[(j + t * 7 + 2) % sc.len()].clone()).collect();
            macro_rules! msm {
                ($G:ident, $go:expr, $gr:expr) => {{
                    guarded(|| {
                        use ark_ec::VariableBaseMSM;
                        let bo: Vec<_> = aas.iter().map(|a| ($go * so(a)).into_affine()).collect();
                        let br: Vec<_> = aas.iter().map(|a| ($gr * sr(a)).into_affine()).collect();
                        let ko: Vec<SO> = sss.iter().map(|x| so(x)).collect();
                        let kr: Vec<SR> = sss.iter().map(|x| sr(x)).collect();
                        let ro = <<Ours as Pairing>::$G as VariableBaseMSM>::msm(&bo, &ko).map(|p| ser(&p.into_affine(), true)).unwrap_or_default();
                        let rr = <<Refe as Pairing>::$G as VariableBaseMSM>::msm(&br, &kr).map(|p| ser(&p.into_affine(), true)).unwrap_or_default();
                        (ro, rr)
                    })
                }};
            }
            let res = if grp == "G1" { msm!(G1, g1o, g1r) } else { msm!(G2, g2o, g2r) };
            let ev = json!({"k":"blsmsm","grp":grp,"aa":aas,"ss":sss});
            emit(out, finish(ev, res.map(|(o, rf)| json!({"ours":o,"ref":rf}))));
        }
    }
    // products of pairings: multi_pairing, multi_miller_loop + final_exponentiation, prepared inputs -- of 0, 1, 2, 3
    // and 5 pairs (the empty product is 1; a pair with the point at infinity contributes 1)
    for (j, cnt) in [0usize, 1, 2, 3, 5, 2, 3].iter().enumerate() {
        let idx: Vec<usize> = (0..*cnt).map(|t| (j * 3 + t * 5 + 1) % sc.len()).collect();
        let aas: Vec<Vec<u8>> = idx.iter().map(|i| if j == 5 && *i % 2 == 0 { sc[0].clone() } else { sc[*i].clone() }).collect();
        let bbs: Vec<Vec<u8>> = idx.iter().map(|i| sc[(*i * 7 + 2) % sc.len()].clone()).collect();
        let res = guarded(|| {
            let p_o: Vec<<Ours as Pairing>::G1Affine> = aas.iter().map(|a| (g1o * so(a)).into_affine()).collect();
            let q_o: Vec<<Ours as Pairing>::G2Affine> = bbs.iter().map(|b| (g2o * so(b)).into_affine()).collect();
            let p_r: Vec<<Refe as Pairing>::G1Affine> = aas.iter().map(|a| (g1r * sr(a)).into_affine()).collect();
            let q_r: Vec<<Refe as Pairing>::G2Affine> = bbs.iter().map(|b| (g2r * sr(b)).into_affine()).collect();
            let mo = Ours::multi_pairing(p_o.clone(), q_o.clone());
            let mr = Refe::multi_pairing(p_r.clone(), q_r.clone());
            // the same through the two halves, with explicitly prepared inputs
            let prep_p: Vec<<Ours as Pairing>::G1Prepared> = p_o.iter().map(|x| (*x).into()).collect();
            let prep_q: Vec<<Ours as Pairing>::G2Prepared> = q_o.iter().map(|x| (*x).into()).collect();
            let ml = Ours::multi_miller_loop(prep_p, prep_q);
            let fe = Ours::final_exponentiation(ml).map(|x| ser(&x.0, true)).unwrap_or_default();
            // and as the product of the single pairings
            let mut prod = <Ours as Pairing>::TargetField::ONE;
            for (x, y) in p_o.iter().zip(q_o.iter()) {
                prod *= Ours::pairing(*x, *y).0;
            }
            (ser(&mo.0, true), ser(&mr.0, true), fe, ser(&prod, true))
        });
        let ev = json!({"k":"blsmpair","aa":aas,"bb":bbs});
        emit(out, finish(ev, res.map(|(o, rf, fe, prod)| json!({"ours":o,"ref":rf,"ours_ml_fe":fe,"ours_prod":prod}))));
    }
    for (i, (a, b)) in pairs.iter().enumerate() {
        if i % 20 == 19 {
            emit(out, json!({"k":"reset","build":BUILD}));
        }
        let eo = Ours::pairing(g1o * so(a), g2o * so(b));
        let er = Refe::pairing(g1r * sr(a), g2r * sr(b));
        let pow_o = gt_o.0.pow((so(a) * so(b)).into_bigint());
        let pow_r = gt_r.0.pow((sr(a) * sr(b)).into_bigint());
        let mut ev = json!({"k":"blspair","a":a,"b":b,"ours":ser(&eo.0, true),"ref":ser(&er.0, true),
            "ours_pow":ser(&pow_o, true),"ref_pow":ser(&pow_r, true)});
        // "ground": the specification recomputes the pairing itself (Miller loop + final exponentiation in TLA+,
        // about a minute of TLC time): e(0, G2), e(G1, G2) and (long runs only) one random pair; "gt": the recorded e(G1, G2),
        // from which the specification recomputes e(G1, G2)^(ab) by exponentiation in Fp12
        if i == 0 || i == 2 || (i == 7 && n >= 100) {
            ev["ground"] = json!(true);
        }
        if i == 7 || i == 9 {
            ev["gt"] = json!(ser(&gt_o.0, true));
        }
        emit(out, ev);
    }
}

// ---- configuration constants of the tower / curves, ours vs reference ---------------------------
trait Cfg12 {
    type C: ark_ff::Fp12Config;
}
impl<P: ark_ff::Fp12Config> Cfg12 for ark_ff::Fp12<P> {
    type C = P;
}
type C12O = <<Ours as Pairing>::TargetField as Cfg12>::C;
type C12R = <<Refe as Pairing>::TargetField as Cfg12>::C;
type C6O = <C12O as ark_ff::Fp12Config>::Fp6Config;
type C6R = <C12R as ark_ff::Fp12Config>::Fp6Config;
type C2O = <C6O as ark_ff::Fp6Config>::Fp2Config;
type C2R = <C6R as ark_ff::Fp6Config>::Fp2Config;
type G1CO = <<Ours as Pairing>::G1Affine as AffineRepr>::Config;
type G1CR = <<Refe as Pairing>::G1Affine as AffineRepr>::Config;
type G2CO = <<Ours as Pairing>::G2Affine as AffineRepr>::Config;
type G2CR = <<Refe as Pairing>::G2Affine as AffineRepr>::Config;

fn ser_slice<T: CanonicalSerialize>(xs: &[T]) -> Vec<u8> {
    let mut v = Vec::new();
    for x in xs {
        x.serialize_uncompressed(&mut v).unwrap();
    }
    v
}

pub fn constants(out: &mut dyn Write) {
    use ark_ec::short_weierstrass::SWCurveConfig;
    use ark_ec::CurveConfig;
    use ark_ff::{Fp12Config, Fp2Config, Fp6Config};
    let mut k = |name: &str, o: Vec<u8>, r: Vec<u8>| {
        emit(out, json!({"k":"blsconst","name":name,"ours":o,"ref":r}));
    };
    k("Fp2::NONRESIDUE", ser(&C2O::NONRESIDUE, false), ser(&C2R::NONRESIDUE, false));
    k("Fp2::FROBENIUS_COEFF_FP2_C1", ser_slice(C2O::FROBENIUS_COEFF_FP2_C1), ser_slice(C2R::FROBENIUS_COEFF_FP2_C1));
    k("Fp6::NONRESIDUE", ser(&C6O::NONRESIDUE, false), ser(&C6R::NONRESIDUE, false));
    k("Fp6::FROBENIUS_COEFF_FP6_C1", ser_slice(C6O::FROBENIUS_COEFF_FP6_C1), ser_slice(C6R::FROBENIUS_COEFF_FP6_C1));
    k("Fp6::FROBENIUS_COEFF_FP6_C2", ser_slice(C6O::FROBENIUS_COEFF_FP6_C2), ser_slice(C6R::FROBENIUS_COEFF_FP6_C2));
    k("Fp12::NONRESIDUE", ser(&C12O::NONRESIDUE, false), ser(&C12R::NONRESIDUE, false));
    k("Fp12::FROBENIUS_COEFF_FP12_C1", ser_slice(C12O::FROBENIUS_COEFF_FP12_C1), ser_slice(C12R::FROBENIUS_COEFF_FP12_C1));
    k("G1::COEFF_A", ser(&G1CO::COEFF_A, false), ser(&G1CR::COEFF_A, false));
    k("G1::COEFF_B", ser(&G1CO::COEFF_B, false), ser(&G1CR::COEFF_B, false));
    k("G2::COEFF_A", ser(&G2CO::COEFF_A, false), ser(&G2CR::COEFF_A, false));
    k("G2::COEFF_B", ser(&G2CO::COEFF_B, false), ser(&G2CR::COEFF_B, false));
    k("G1::COFACTOR", limbs_to_bytes(G1CO::COFACTOR), limbs_to_bytes(G1CR::COFACTOR));
    k("G2::COFACTOR", limbs_to_bytes(G2CO::COFACTOR), limbs_to_bytes(G2CR::COFACTOR));
    k("G1::COFACTOR_INV", ser(&G1CO::COFACTOR_INV, false), ser(&G1CR::COFACTOR_INV, false));
    k("G2::COFACTOR_INV", ser(&G2CO::COFACTOR_INV, false), ser(&G2CR::COFACTOR_INV, false));
    k("G1::GENERATOR", ser(&G1CO::GENERATOR, false), ser(&G1CR::GENERATOR, false));
    k("G2::GENERATOR", ser(&G2CO::GENERATOR, false), ser(&G2CR::GENERATOR, false));
    {
        use ark_ec::models::bls12::Bls12Config;
        fn xs<C: Bls12Config>() -> Vec<u8> {
            let mut v = limbs_to_bytes(C::X);
            v.push(C::X_IS_NEGATIVE as u8);
            v.push(match C::TWIST_TYPE {
                ark_ec::models::bls12::TwistType::M => 1,
                ark_ec::models::bls12::TwistType::D => 2,
            });
            v
        }
        trait CfgB {
            type C: Bls12Config;
        }
        impl<P: Bls12Config> CfgB for ark_ec::models::bls12::Bls12<P> {
            type C = P;
        }
        k("Bls12Config::X,X_IS_NEGATIVE,TWIST_TYPE", xs::<<Ours as CfgB>::C>(), xs::<<Refe as CfgB>::C>());
    }
}

/// Frobenius maps against plain exponentiation, deserialisation of arbitrary strings, cofactor operations
pub fn extras(out: &mut dyn Write, r: &mut ChaCha20Rng, n: usize) {
    type F12O = <Ours as Pairing>::TargetField;
    type F12R = <Refe as Pairing>::TargetField;
    let p_limbs: Vec<u64> = bytes_to_limbs(&P_LE);
    // p^i as limbs
    let mut powers: Vec<Vec<u64>> = vec![vec![1]];
    for _ in 1..12 {
        let last = powers.last().unwrap().clone();
        // schoolbook limb multiplication last * p
        let mut acc = vec![0u128; last.len() + p_limbs.len() + 1];
        for (i, a) in last.iter().enumerate() {
            let mut carry = 0u128;
            for (j, b) in p_limbs.iter().enumerate() {
                let cur = acc[i + j] + (*a as u128) * (*b as u128) + carry;
                acc[i + j] = cur & 0xffff_ffff_ffff_ffff;
                carry = cur >> 64;
            }
            let mut kk = i + p_limbs.len();
            while carry > 0 {
                let cur = acc[kk] + carry;
                acc[kk] = cur & 0xffff_ffff_ffff_ffff;
                carry = cur >> 64;
                kk += 1;
            }
        }
        powers.push(acc.iter().map(|x| *x as u64).collect());
    }
    for t in 0..(n / 20 + 2) {
        // the same element of Fp12 in both engines, built from 12 base-field coefficients given as integers
        // (the two engines' random samplers legitimately differ, so the value is not sampled through them)
        let coeffs: Vec<Vec<u8>> = (0..12).map(|_| rbytes(r, 64)).collect();
        let co: Vec<<Ours as Pairing>::BaseField> = coeffs.iter().map(|b| <<Ours as Pairing>::BaseField as PrimeField>::from_le_bytes_mod_order(b)).collect();
        let cr: Vec<<Refe as Pairing>::BaseField> = coeffs.iter().map(|b| <<Refe as Pairing>::BaseField as PrimeField>::from_le_bytes_mod_order(b)).collect();
        let xo = F12O::from_base_prime_field_elems(&co).unwrap();
        let xr = F12R::from_base_prime_field_elems(&cr).unwrap();
        for i in 0..12usize {
            if t > 0 && i % 3 != t % 3 {
                continue;
            }
            let fo = xo.frobenius_map(i);
            let po = xo.pow(&powers[i]);
            let fr = xr.frobenius_map(i);
            emit(out, json!({"k":"blsfrob","i":i,"x":ser(&xo, false),"xr":ser(&xr, false),"ours_frob":ser(&fo, false),"ours_pow":ser(&po, false),"ref_frob":ser(&fr, false)}));
        }
    }
    emit(out, json!({"k":"reset","build":BUILD}));
    // deserialisation of arbitrary strings: both engines must give the same verdict and the same point
    for t in 0..n {
        let (grp, len) = if t % 2 == 0 { ("G1", 48) } else { ("G2", 96) };
        let mut b = rbytes(r, len);
        match t % 5 {
            0 => b[len - 1] &= 0x01,
            1 => b[len - 1] = (b[len - 1] & 0x01) | 0x80,
            2 => b[len - 1] = 0x40,
            _ => b[len - 1] &= 0x81,
        }
        deser_event(out, grp, &b);
    }
}

/// one string through the validated and the unchecked compressed deserialiser of both engines, plus the cofactor
/// operations on the resulting curve point
macro_rules! deser_with {
    ($G:ident, $out:expr, $grp:expr, $b:expr) => {{
        let out = $out;
        let grp: &str = $grp;
        let b: &Vec<u8> = $b;

        let o = <<Ours as Pairing>::$G as CurveGroup>::Affine::deserialize_compressed(&b[..]);
        let rr = <<Refe as Pairing>::$G as CurveGroup>::Affine::deserialize_compressed(&b[..]);
        let ou = <<Ours as Pairing>::$G as CurveGroup>::Affine::deserialize_compressed_unchecked(&b[..]);
        let ru = <<Refe as Pairing>::$G as CurveGroup>::Affine::deserialize_compressed_unchecked(&b[..]);
        let cof = match (&ou, &ru) {
            // clear_cofactor is NOT compared byte for byte: the reference clears with the effective cofactor
            // (1 - x), the crate's config with the full cofactor h; both must land in the subgroup
            (Ok(a), Ok(c)) => json!({"ours_clear_insub": a.clear_cofactor().is_in_correct_subgroup_assuming_on_curve(),
                "ref_clear_insub": c.clear_cofactor().is_in_correct_subgroup_assuming_on_curve(),
                "ours_mulcof": ser(&a.mul_by_cofactor(), false), "ref_mulcof": ser(&c.mul_by_cofactor(), false),
                "ours_mulinv": ser(&a.mul_by_cofactor_inv(), false), "ref_mulinv": ser(&c.mul_by_cofactor_inv(), false),
                "ours_insub": a.is_in_correct_subgroup_assuming_on_curve(), "ref_insub": c.is_in_correct_subgroup_assuming_on_curve()}),
            _ => json!({}),
        };
        emit(out, json!({"k":"blsdeser","grp":grp,"b":b,"ours_ok":o.is_ok(),"ref_ok":rr.is_ok(),
            "ours_unchecked_ok":ou.is_ok(),"ref_unchecked_ok":ru.is_ok(),
            "ours_re":o.map(|p| ser(&p, false)).unwrap_or_default(),"ref_re":rr.map(|p| ser(&p, false)).unwrap_or_default(),
            "ours_ure":ou.map(|p| ser(&p, false)).unwrap_or_default(),"ref_ure":ru.map(|p| ser(&p, false)).unwrap_or_default(),
            "cof":cof}));
        }};
}
pub fn deser_event(out: &mut dyn Write, grp: &str, b: &Vec<u8>) {
    if grp == "G1" {
        deser_with!(G1, out, grp, b)
    } else {
        deser_with!(G2, out, grp, b)
    }
}

/// uncompressed strings in which ONE base-field coordinate is replaced by a non-canonical alias c + p (still 48
/// bytes), and the canonical string itself, through the validated and the unchecked uncompressed reader of both
/// engines: same verdicts, same value read back.  grp: "G1" (x || y), "G2" (x.c0 || x.c1 || y.c0 || y.c1), "GT" (12
/// coefficients), "Fp" (one coefficient).
pub fn raw_events(out: &mut dyn Write, grp: &str, canon: &[u8]) {
    use ark_serialize::{Compress, Validate};
    let ncoef = canon.len() / 48;
    let mut variants: Vec<(String, Vec<u8>)> = vec![("canonical".into(), canon.to_vec())];
    for j in 0..ncoef {
        let c = &canon[48 * j..48 * (j + 1)];
        // flag bits of the last coefficient are kept out of the addition
        let mut cc = c.to_vec();
        let flags = if j == ncoef - 1 { cc[47] & 0xc0 } else { 0 };
        cc[47] &= 0x3f;
        let mut al = le_add(&cc, &P_LE);
        al.resize(48, 0);
        if al.len() == 48 && al[47] & 0xc0 == 0 {
            al[47] |= flags;
            let mut v = canon.to_vec();
            v[48 * j..48 * (j + 1)].copy_from_slice(&al);
            variants.push((format!("coef{}+p", j), v));
        }
        if j >= 3 && ncoef == 12 {
            break; // a few coefficients of an Fp12 element are enough
        }
    }
    macro_rules! go {
        ($TO:ty, $TR:ty) => {{
            for (what, b) in variants.iter() {
                let mut ev = json!({"k":"blsraw","grp":grp,"what":what,"b":b});
                for (vm, tag) in [(Validate::Yes, "v"), (Validate::No, "u")] {
                    let o = guarded(|| <$TO>::deserialize_with_mode(&b[..], Compress::No, vm).map(|x| ser(&x, false)).ok());
                    let rr = guarded(|| <$TR>::deserialize_with_mode(&b[..], Compress::No, vm).map(|x| ser(&x, false)).ok());
                    match (o, rr) {
                        (Ok(o), Ok(rr)) => {
                            ev[format!("ours_ok_{}", tag)] = json!(o.is_some());
                            ev[format!("ref_ok_{}", tag)] = json!(rr.is_some());
                            ev[format!("ours_re_{}", tag)] = json!(o.unwrap_or_default());
                            ev[format!("ref_re_{}", tag)] = json!(rr.unwrap_or_default());
                        }
                        (Err(p), _) | (_, Err(p)) => ev["panic"] = json!(p),
                    }
                }
                emit(out, ev);
            }
        }};
    }
    match grp {
        "G1" => go!(<<Ours as Pairing>::G1 as CurveGroup>::Affine, <<Refe as Pairing>::G1 as CurveGroup>::Affine),
        "G2" => go!(<<Ours as Pairing>::G2 as CurveGroup>::Affine, <<Refe as Pairing>::G2 as CurveGroup>::Affine),
        "GT" => go!(<Ours as Pairing>::TargetField, <Refe as Pairing>::TargetField),
        _ => go!(<Ours as Pairing>::BaseField, <Refe as Pairing>::BaseField),
    }
}

/// G1 curve points given by coordinates (tools/g1_points.py: y on the boundary that decides the sign bit):
/// both engines read them with the unchecked deserialiser and write them back in both modes, for P and -P
pub fn points(out: &mut dyn Write, file: &str) {
    emit(out, json!({"k":"reset","build":BUILD}));
    let text = std::fs::read_to_string(file).expect("points file");
    for line in text.lines() {
        let v: serde_json::Value = serde_json::from_str(line).expect("json");
        if let Some(grp) = v["deser"].as_str() {
            // a constructed compressed string (tools/g1_points.py: G2 x-coordinates whose curve-equation right-hand
            // side lies in Fp, the special branch of the square root in Fp2)
            let b: Vec<u8> = serde_json::from_value(v["b"].clone()).unwrap();
            deser_event(out, grp, &b);
            continue;
        }
        let x: Vec<u8> = serde_json::from_value(v["x"].clone()).unwrap();
        let y: Vec<u8> = serde_json::from_value(v["y"].clone()).unwrap();
        let mut unc = x.clone();
        unc.extend_from_slice(&y);
        type AO = <<Ours as Pairing>::G1 as CurveGroup>::Affine;
        type AR = <<Refe as Pairing>::G1 as CurveGroup>::Affine;
        let po = AO::deserialize_uncompressed_unchecked(&unc[..]);
        let pr = AR::deserialize_uncompressed_unchecked(&unc[..]);
        let mut ev = json!({"k":"blspt","x":x,"y":y,"ours_ok":po.is_ok(),"ref_ok":pr.is_ok()});
        if let (Ok(a), Ok(b)) = (po, pr) {
            use core::ops::Neg;
            let (na, nb) = (a.neg(), b.neg());
            let ca = ser(&a, true);
            let cb = ser(&b, true);
            // decompress what each engine wrote, with both engines
            let back = |bytes: &[u8]| -> (Vec<u8>, Vec<u8>) {
                (
                    AO::deserialize_compressed_unchecked(bytes).map(|p| ser(&p, false)).unwrap_or_default(),
                    AR::deserialize_compressed_unchecked(bytes).map(|p| ser(&p, false)).unwrap_or_default(),
                )
            };
            let (oo, or_) = back(&ca);
            ev["ours_c"] = json!(ca);
            ev["ref_c"] = json!(cb);
            ev["ours_u"] = json!(ser(&a, false));
            ev["ref_u"] = json!(ser(&b, false));
            ev["ours_nc"] = json!(ser(&na, true));
            ev["ref_nc"] = json!(ser(&nb, true));
            ev["ours_back"] = json!(oo);
            ev["ref_back"] = json!(or_);
            ev["on_curve"] = json!(a.is_on_curve() && b.is_on_curve());
        }
        emit(out, ev);
    }
}

trait ZeroPt {
    fn zero_pt() -> Self;
}
impl<T: ark_ff::Zero> ZeroPt for T {
    fn zero_pt() -> Self {
        T::zero()
    }
}
trait ToBytesVec {
    fn to_bytes_le_vec(&self) -> Vec<u8>;
}
impl<const N: usize> ToBytesVec for ark_ff::BigInt<N> {
    fn to_bytes_le_vec(&self) -> Vec<u8> {
        use ark_ff::BigInteger;
        self.to_bytes_le()
    }
}
