//! C16 (filled in below)
use rand_chacha::ChaCha20Rng;
use std::io::Write;
pub fn record(_out: &mut dyn Write, _r: &mut ChaCha20Rng, _n: usize) {}
