//! C16: the BLS12-377 engine instantiated over the crate's own fields versus the reference
//! arkworks engine, both in one binary.  Every observable is logged from both engines; the
//! trace specification (spec/Pairing.tla) requires them byte-identical and consistent with an
//! abstract bilinear group over exponents.
use crate::common::*;
use ark_ec::pairing::Pairing;
use ark_ec::{AffineRepr, CurveGroup, Group};
use ark_ff::{Field, PrimeField};
use ark_serialize::{CanonicalDeserialize, CanonicalSerialize};
use rand_chacha::ChaCha20Rng;
use serde_json::json;
use std::io::Write;

type Ours = decaf377::Bls12_377;
type Refe = ark_bls12_377::Bls12_377;
type SO = <Ours as Pairing>::ScalarField;
type SR = <Refe as Pairing>::ScalarField;

fn ser<T: CanonicalSerialize>(x: &T, compressed: bool) -> Vec<u8> {
    let mut v = Vec::new();
    if compressed {
        x.serialize_compressed(&mut v).unwrap();
    } else {
        x.serialize_uncompressed(&mut v).unwrap();
    }
    v
}

fn scalars(r: &mut ChaCha20Rng, n: usize) -> Vec<Vec<u8>> {
    let q = Q_LE.to_vec();
    let mut v: Vec<Vec<u8>> = vec![
        vec![0; 32],
        le_pow2(0, 32),
        le_add_small(&vec![0; 32], 2),
        le_sub_small(&q, 1),
        le_shr1(&le_sub_small(&q, 1)),
        le_shr1(&le_add_small(&q, 1)),
        le_pow2(64, 32),
        le_sub_small(&le_pow2(64, 32), 1),
        le_pow2(128, 32),
        le_pow2(252, 32),
    ];
    for _ in 0..n {
        let mut b = rbytes(r, 32);
        b[31] &= 0x0f;
        v.push(b);
    }
    v
}

pub fn record(out: &mut dyn Write, r: &mut ChaCha20Rng, n: usize) {
    emit(out, json!({"k":"reset","build":BUILD}));
    let g1o = <Ours as Pairing>::G1::generator();
    let g2o = <Ours as Pairing>::G2::generator();
    let g1r = <Refe as Pairing>::G1::generator();
    let g2r = <Refe as Pairing>::G2::generator();
    // generators (affine coordinates of G1 as integers, for the curve-equation / order check in the spec)
    {
        let a = g1o.into_affine();
        let (x, y) = a.xy().unwrap();
        let ar = g1r.into_affine();
        let (xr, yr) = ar.xy().unwrap();
        emit(out, json!({"k":"blsgen","grp":"G1","x":x.to_bytes_le().to_vec(),"y":y.to_bytes_le().to_vec(),
            "xr":xr.into_bigint().to_bytes_le_vec(),"yr":yr.into_bigint().to_bytes_le_vec(),
            "ours":ser(&a, true),"ref":ser(&ar, true),"ours_unc":ser(&a, false),"ref_unc":ser(&ar, false)}));
        let b = g2o.into_affine();
        let br = g2r.into_affine();
        emit(out, json!({"k":"blsgen","grp":"G2","ours":ser(&b, true),"ref":ser(&br, true),"ours_unc":ser(&b, false),"ref_unc":ser(&br, false)}));
    }
    let sc = scalars(r, n);
    let so = |b: &[u8]| SO::from_le_bytes_mod_order(b);
    let sr = |b: &[u8]| SR::from_le_bytes_mod_order(b);
    // scalar multiplication in G1 and G2, additivity, serialisation in both modes, cross-deserialisation
    for (i, a) in sc.iter().enumerate() {
        if i % 40 == 39 {
            emit(out, json!({"k":"reset","build":BUILD}));
        }
        let b = &sc[(i * 7 + 3) % sc.len()];
        for grp in ["G1", "G2"] {
            let terms = if i % 3 == 0 { vec![a.clone()] } else { vec![a.clone(), b.clone()] };
            macro_rules! go {
                ($G:ident, $go:expr, $gr:expr) => {{
                    let sum_o: SO = terms.iter().map(|t| so(t)).sum();
                    let sum_r: SR = terms.iter().map(|t| sr(t)).sum();
                    let po = ($go * sum_o).into_affine();
                    let pr = ($gr * sum_r).into_affine();
                    let parts_o = terms.iter().fold(<Ours as Pairing>::$G::zero_pt(), |acc, t| acc + $go * so(t)).into_affine();
                    let bytes_o = ser(&po, true);
                    let bytes_r = ser(&pr, true);
                    // cross-deserialisation: each engine reads the other's bytes (both modes) and writes them back
                    let cross = {
                        let a1 = <<Refe as Pairing>::$G as CurveGroup>::Affine::deserialize_compressed(&bytes_o[..]).map(|p| ser(&p, true) == bytes_o).unwrap_or(false);
                        let a2 = <<Ours as Pairing>::$G as CurveGroup>::Affine::deserialize_compressed(&bytes_r[..]).map(|p| ser(&p, true) == bytes_r).unwrap_or(false);
                        let u_o = ser(&po, false);
                        let a3 = <<Refe as Pairing>::$G as CurveGroup>::Affine::deserialize_uncompressed(&u_o[..]).map(|p| ser(&p, false) == u_o).unwrap_or(false);
                        a1 && a2 && a3
                    };
                    emit(out, json!({"k":"blsmul","grp":grp,"terms":terms,"ours":bytes_o,"ref":bytes_r,
                        "ours_unc":ser(&po, false),"ref_unc":ser(&pr, false),"ours_sum":ser(&parts_o, true),"cross":cross}));
                }};
            }
            if grp == "G1" {
                go!(G1, g1o, g1r)
            } else {
                go!(G2, g2o, g2r)
            }
        }
    }
    emit(out, json!({"k":"reset","build":BUILD}));
    // pairings: (a, b) and other factorisations of the same product
    let gt_o = Ours::pairing(g1o, g2o);
    let gt_r = Refe::pairing(g1r, g2r);
    let mut pairs: Vec<(Vec<u8>, Vec<u8>)> = vec![(sc[0].clone(), sc[1].clone()), (sc[1].clone(), sc[0].clone()), (sc[1].clone(), sc[1].clone())];
    for i in 0..(n / 2 + 6) {
        let a = sc[(i * 3 + 1) % sc.len()].clone();
        let b = sc[(i * 5 + 2) % sc.len()].clone();
        let ab = (so(&a) * so(&b)).to_bytes_le().to_vec();
        pairs.push((a.clone(), b.clone()));
        pairs.push((b.clone(), a.clone()));
        pairs.push((ab.clone(), sc[1].clone()));
        if i % 2 == 0 {
            pairs.push((sc[1].clone(), ab));
        }
    }
    for (i, (a, b)) in pairs.iter().enumerate() {
        if i % 20 == 19 {
            emit(out, json!({"k":"reset","build":BUILD}));
        }
        let eo = Ours::pairing(g1o * so(a), g2o * so(b));
        let er = Refe::pairing(g1r * sr(a), g2r * sr(b));
        let pow_o = gt_o.0.pow((so(a) * so(b)).into_bigint());
        let pow_r = gt_r.0.pow((sr(a) * sr(b)).into_bigint());
        emit(out, json!({"k":"blspair","a":a,"b":b,"ours":ser(&eo.0, true),"ref":ser(&er.0, true),
            "ours_pow":ser(&pow_o, true),"ref_pow":ser(&pow_r, true)}));
    }
}

trait ZeroPt {
    fn zero_pt() -> Self;
}
impl<T: ark_ff::Zero> ZeroPt for T {
    fn zero_pt() -> Self {
        T::zero()
    }
}
trait ToBytesVec {
    fn to_bytes_le_vec(&self) -> Vec<u8>;
}
impl<const N: usize> ToBytesVec for ark_ff::BigInt<N> {
    fn to_bytes_le_vec(&self) -> Vec<u8> {
        use ark_ff::BigInteger;
        self.to_bytes_le()
    }
}
