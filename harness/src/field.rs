//! Field-level suites for Fq, Fr, Fp (C10, C11, field half of C09).  One macro
//! instantiation per field; every operator / method form is one table entry.
//! Operands are logged as the library's canonical bytes; the conversion events tie
//! that serialisation to integers chosen here before they enter the library.
use crate::common::*;
use rand_chacha::ChaCha20Rng;
use serde_json::{json, Value};
use std::io::Write;

#[cfg(feature = "ark")]
use ark_ff::{BigInteger, Field, PrimeField};
#[cfg(feature = "ark")]
use ark_serialize::{
    CanonicalDeserialize, CanonicalDeserializeWithFlags, CanonicalSerialize, CanonicalSerializeWithFlags, EmptyFlags,
    Flags,
};

fn hash64<T: std::hash::Hash>(x: &T) -> u64 {
    use std::hash::Hasher;
    let mut h = std::collections::hash_map::DefaultHasher::new();
    x.hash(&mut h);
    h.finish()
}

/// interesting integers below / around a modulus, as little-endian bytes of length n8
fn operand_alphabet(modulus: &[u8]) -> Vec<Vec<u8>> {
    let n8 = modulus.len();
    let m = modulus.to_vec();
    let mut v: Vec<Vec<u8>> = vec![
        vec![0; n8],
        le_add_small(&vec![0; n8], 1),
        le_add_small(&vec![0; n8], 2),
        le_sub_small(&m, 1),
        le_sub_small(&m, 2),
        le_shr1(&le_sub_small(&m, 1)),
        le_shr1(&le_add_small(&m, 1)),
    ];
    let bits = n8 * 8;
    let mut k = 8;
    while k < bits - 8 {
        for kk in [k - 1, k, k + 1] {
            let p2 = le_pow2(kk, n8);
            if le_less(&p2, &m) {
                v.push(p2.clone());
                v.push(le_sub_small(&p2, 1));
            }
        }
        k += if k % 32 == 0 { 32 } else { 8 };
        if k % 32 != 0 {
            k = (k / 32 + 1) * 32;
        }
    }
    // values at a distance of one limb boundary from the modulus, and limbs that are all ones
    let mut k = 32;
    while k < bits - 8 {
        let p2 = le_pow2(k, n8);
        if le_less(&p2, &m) {
            v.push(le_sub(&m, &p2));
            v.push(le_sub_small(&le_sub(&m, &p2), 1));
            let mut ones = vec![0u8; n8];
            for b in ones.iter_mut().skip(k / 8 - 4).take(4) {
                *b = 0xff;
            }
            if le_less(&ones, &m) {
                v.push(ones);
            }
        }
        k += 32;
    }
    // limb patterns
    for pat in [0xffu8, 0xaa, 0x55, 0x80, 0x01] {
        let mut x = vec![pat; n8];
        x[n8 - 1] = 0;
        v.push(x);
    }
    let mut lo32 = vec![0u8; n8];
    for b in lo32.iter_mut().take(4) {
        *b = 0xff;
    }
    v.push(lo32);
    let mut lo64 = vec![0u8; n8];
    for b in lo64.iter_mut().take(8) {
        *b = 0xff;
    }
    v.push(lo64);
    // R mod p and R^2 mod p style values are reached by random operands; add 2^(8*n8) - p (= R - p)
    v
}

fn rand_operand_bytes(r: &mut ChaCha20Rng, modulus: &[u8]) -> Vec<u8> {
    let n8 = modulus.len();
    match below(r, 10) {
        0 | 1 => {
            let a = operand_alphabet(modulus);
            a[below(r, a.len())].clone()
        }
        2 => {
            // sparse limb pattern
            let mut x = vec![0u8; n8];
            for i in 0..n8 / 4 {
                let pat = [0x00u8, 0xff, 0x00, 0xff, 0x01, 0x80][below(r, 6)];
                for j in 0..4 {
                    x[4 * i + j] = pat;
                }
            }
            x[n8 - 1] = 0;
            x
        }
        _ => {
            let mut x = rbytes(r, n8 + 16);
            if below(r, 3) == 0 {
                x.truncate(n8);
                x[n8 - 1] &= 0x0f;
            }
            x
        }
    }
}

macro_rules! field_suite {
    ($modname:ident, $F:ty, $name:expr, $n8:expr, $n64:expr, $modulus:expr, $has_select:expr) => {
        pub mod $modname {
            use super::*;
            type F = $F;
            pub const NAME: &str = $name;
            pub const N8: usize = $n8;
            pub fn b(x: &F) -> Vec<u8> {
                x.to_bytes_le().to_vec()
            }
            pub fn of(bytes: &[u8]) -> F {
                F::from_le_bytes_mod_order(bytes)
            }
            type BinF = fn(F, F) -> F;
            pub const BIN: &[(&str, &str, BinF)] = &[
                ("add", "a+b", |a, b| a + b),
                ("add", "a+&b", |a, b| a + &b),
                ("add", "a+&mut b", |a, mut b| a + &mut b),
                ("add", "a+=b", |mut a, b| {
                    a += b;
                    a
                }),
                ("add", "a+=&b", |mut a, b| {
                    a += &b;
                    a
                }),
                ("add", "a+=&mut b", |mut a, mut b| {
                    a += &mut b;
                    a
                }),
                ("add", "F::add(a,&b)", |a, b| F::add(a, &b)),
                ("sub", "a-b", |a, b| a - b),
                ("sub", "a-&b", |a, b| a - &b),
                ("sub", "a-&mut b", |a, mut b| a - &mut b),
                ("sub", "a-=b", |mut a, b| {
                    a -= b;
                    a
                }),
                ("sub", "a-=&b", |mut a, b| {
                    a -= &b;
                    a
                }),
                ("sub", "a-=&mut b", |mut a, mut b| {
                    a -= &mut b;
                    a
                }),
                ("sub", "F::sub(a,&b)", |a, b| F::sub(a, &b)),
                ("mul", "a*b", |a, b| a * b),
                ("mul", "a*&b", |a, b| a * &b),
                ("mul", "a*&mut b", |a, mut b| a * &mut b),
                ("mul", "a*=b", |mut a, b| {
                    a *= b;
                    a
                }),
                ("mul", "a*=&b", |mut a, b| {
                    a *= &b;
                    a
                }),
                ("mul", "a*=&mut b", |mut a, mut b| {
                    a *= &mut b;
                    a
                }),
                ("mul", "F::mul(a,&b)", |a, b| F::mul(a, &b)),
                ("div", "a/b", |a, b| a / b),
                ("div", "a/&b", |a, b| a / &b),
                ("div", "a/&mut b", |a, mut b| a / &mut b),
                ("div", "a/=b", |mut a, b| {
                    a /= b;
                    a
                }),
                ("div", "a/=&b", |mut a, b| {
                    a /= &b;
                    a
                }),
                ("div", "a/=&mut b", |mut a, mut b| {
                    a /= &mut b;
                    a
                }),
            ];
            type UnF = fn(F) -> Option<F>;
            #[cfg(feature = "ark")]
            pub const UN: &[(&str, &str, UnF)] = &[
                ("neg", "-a", |a| Some(-a)),
                ("neg", "F::neg(a)", |a| Some(F::neg(a))),
                ("neg", "neg_in_place", |mut a| {
                    a.neg_in_place();
                    Some(a)
                }),
                ("square", "a.square()", |a| Some(a.square())),
                ("square", "Field::square", |a| Some(Field::square(&a))),
                ("square", "square_in_place", |mut a| {
                    a.square_in_place();
                    Some(a)
                }),
                ("double", "Field::double", |a| Some(Field::double(&a))),
                ("double", "double_in_place", |mut a| {
                    a.double_in_place();
                    Some(a)
                }),
                ("inverse", "a.inverse()", |a| a.inverse()),
                ("inverse", "Field::inverse", |a| Field::inverse(&a)),
                ("inverse", "inverse_in_place", |mut a| a.inverse_in_place().map(|x| *x)),
                ("id", "frobenius_map", |a| Some(a.frobenius_map(3))),
                ("id", "from_base_prime_field", |a| Some(F::from_base_prime_field(a))),
                ("id", "from_base_prime_field_elems", |a| F::from_base_prime_field_elems(&[a])),
                ("id", "clone", |a| Some(a.clone())),
            ];
            #[cfg(not(feature = "ark"))]
            pub const UN: &[(&str, &str, UnF)] = &[
                ("neg", "-a", |a| Some(-a)),
                ("neg", "F::neg(a)", |a| Some(F::neg(a))),
                ("square", "a.square()", |a| Some(a.square())),
                ("inverse", "a.inverse()", |a| a.inverse()),
                ("id", "clone", |a| Some(a.clone())),
            ];
            type FoldF = fn(&[F]) -> F;
            pub const FOLD: &[(&str, &str, FoldF)] = &[
                ("sum", "Sum<F>", |v| v.iter().copied().sum()),
                ("sum", "Sum<&F>", |v| v.iter().sum()),
                ("product", "Product<F>", |v| v.iter().copied().product()),
                ("product", "Product<&F>", |v| v.iter().product()),
            ];
            type EqF = fn(F, F) -> bool;
            pub const EQ: &[(&str, EqF)] = &[("a==b", |a, b| a == b), ("!(a!=b)", |a, b| !(a != b))];

            pub fn emit_bin(out: &mut dyn Write, idx: usize, a: F, bb: F) -> Option<F> {
                let (op, form, f) = BIN[idx % BIN.len()];
                if op == "div" && bb == F::ZERO {
                    return None;
                }
                let ev = json!({"k":"fbin","field":NAME,"op":op,"form":form,"a":b(&a),"b":b(&bb)});
                let r = guarded(|| f(a, bb));
                let res = r.clone().ok();
                emit(out, finish(ev, r.map(|x| json!({"out":b(&x)}))));
                res
            }
            /// binary operators applied to ONE object on both sides (logged as an `fbin` event with b = a)
            pub const ALIAS: &[(&str, &str, fn(F) -> F)] = &[
                ("add", "a+&a", |a| a + &a),
                ("sub", "a-&a", |a| a - &a),
                ("mul", "a*&a", |a| a * &a),
                ("add", "a+a", |a| a + a),
                ("sub", "a-a", |a| a - a),
                ("mul", "a*a", |a| a * a),
            ];
            pub fn emit_alias(out: &mut dyn Write, idx: usize, a: F) {
                let (op, form, f) = ALIAS[idx % ALIAS.len()];
                if op == "div" && a == F::ZERO {
                    return;
                }
                let ev = json!({"k":"fbin","field":NAME,"op":op,"form":form,"a":b(&a),"b":b(&a)});
                let r = guarded(|| f(a));
                emit(out, finish(ev, r.map(|x| json!({"out":b(&x)}))));
            }
            pub fn emit_un(out: &mut dyn Write, idx: usize, a: F) -> Option<F> {
                let (op, form, f) = UN[idx % UN.len()];
                let ev = json!({"k":"fun","field":NAME,"op":op,"form":form,"a":b(&a)});
                let r = guarded(|| f(a));
                let res = r.clone().ok().flatten();
                emit(
                    out,
                    finish(
                        ev,
                        r.map(|x| match x {
                            Some(y) => json!({"none":false,"out":b(&y)}),
                            None => json!({"none":true}),
                        }),
                    ),
                );
                res
            }
            pub fn emit_fold(out: &mut dyn Write, idx: usize, xs: &[F]) {
                let (op, form, f) = FOLD[idx % FOLD.len()];
                let xb: Vec<Vec<u8>> = xs.iter().map(b).collect();
                let ev = json!({"k":"ffold","field":NAME,"op":op,"form":form,"xs":xb});
                let r = guarded(|| f(xs));
                emit(out, finish(ev, r.map(|x| json!({"out":b(&x)}))));
            }
            pub fn emit_eq(out: &mut dyn Write, idx: usize, a: F, bb: F) {
                let (form, f) = EQ[idx % EQ.len()];
                let ev = json!({"k":"feq","field":NAME,"form":form,"a":b(&a),"b":b(&bb)});
                let r = guarded(|| f(a, bb));
                emit(out, finish(ev, r.map(|x| json!({"out":x}))));
            }
            pub fn emit_from(out: &mut dyn Write, r: &mut ChaCha20Rng) {
                let w = below(r, 6);
                let raw = rbytes(r, 16);
                let mk = |ty: &str, v: Vec<u8>, x: Result<F, String>| {
                    finish(json!({"k":"ffrom","field":NAME,"ty":ty,"v":v}), x.map(|y| json!({"out":b(&y)})))
                };
                let ev = match w {
                    0 => {
                        let v = u128::from_le_bytes(raw[..16].try_into().unwrap());
                        mk("u128", v.to_le_bytes().to_vec(), guarded(|| F::from(v)))
                    }
                    1 => {
                        let v = u64::from_le_bytes(raw[..8].try_into().unwrap());
                        mk("u64", v.to_le_bytes().to_vec(), guarded(|| F::from(v)))
                    }
                    2 => {
                        let v = u32::from_le_bytes(raw[..4].try_into().unwrap());
                        mk("u32", v.to_le_bytes().to_vec(), guarded(|| F::from(v)))
                    }
                    3 => {
                        let v = u16::from_le_bytes(raw[..2].try_into().unwrap());
                        mk("u16", v.to_le_bytes().to_vec(), guarded(|| F::from(v)))
                    }
                    4 => {
                        let v = raw[0];
                        mk("u8", vec![v], guarded(|| F::from(v)))
                    }
                    _ => {
                        let v = raw[0] & 1 == 1;
                        mk("bool", vec![v as u8], guarded(|| F::from(v)))
                    }
                };
                emit(out, ev);
            }
            #[cfg(feature = "ark")]
            pub fn emit_pow(out: &mut dyn Write, a: F, limbs: &[u64]) {
                let ev = json!({"k":"fpow","field":NAME,"form":"Field::pow","a":b(&a),"e":limbs_to_bytes(limbs)});
                let r = guarded(|| a.pow(limbs));
                emit(out, finish(ev, r.map(|x| json!({"out":b(&x)}))));
            }
            #[cfg(not(feature = "ark"))]
            pub fn emit_pow(_out: &mut dyn Write, _a: F, _limbs: &[u64]) {}
            pub fn emit_cmp(out: &mut dyn Write, a: F, bb: F) {
                let ev = json!({"k":"fcmp","field":NAME,"a":b(&a),"b":b(&bb)});
                let r = guarded(|| match a.cmp(&bb) {
                    std::cmp::Ordering::Less => -1,
                    std::cmp::Ordering::Equal => 0,
                    std::cmp::Ordering::Greater => 1,
                });
                let r2 = guarded(|| (a < bb, a <= bb, a > bb, a >= bb, a.partial_cmp(&bb)));
                let consistent = match (&r, &r2) {
                    (Ok(c), Ok((lt, le, gt, ge, pc))) => {
                        *lt == (*c < 0) && *le == (*c <= 0) && *gt == (*c > 0) && *ge == (*c >= 0) && pc.is_some()
                    }
                    _ => false,
                };
                let mut e = finish(ev, r.map(|x| json!({"out":x})));
                if !consistent {
                    e["panic"] = json!("comparison operators inconsistent with cmp");
                }
                emit(out, e);
            }
            pub fn emit_hash(out: &mut dyn Write, a: F) {
                let ev = json!({"k":"fhash","field":NAME,"a":b(&a)});
                let r = guarded(|| hash64(&a));
                emit(out, finish(ev, r.map(|h| json!({"h":h.to_le_bytes().to_vec()}))));
            }

            // ---- C11: serialisation of a harness-chosen integer v (< p, canonical n8 bytes)
            type SerF = fn(F) -> Vec<u8>;
            #[cfg(feature = "ark")]
            pub const SER: &[(&str, SerF)] = &[
                ("to_bytes_le", |x| x.to_bytes_le().to_vec()),
                ("to_bytes", |x| x.to_bytes().to_vec()),
                ("serialize_compressed", |x| {
                    let mut v = Vec::new();
                    x.serialize_compressed(&mut v).unwrap();
                    v
                }),
                ("serialize_uncompressed", |x| {
                    let mut v = Vec::new();
                    x.serialize_uncompressed(&mut v).unwrap();
                    v
                }),
                ("serialize_compressed (3-byte writes)", |x| {
                    let mut w = ShortWriter::new(3);
                    x.serialize_compressed(&mut w).unwrap();
                    w.buf
                }),
                ("serialize_with_flags<Empty>", |x| {
                    let mut v = Vec::new();
                    x.serialize_with_flags(&mut v, EmptyFlags).unwrap();
                    v
                }),
                ("into_bigint().to_bytes_le", |x| x.into_bigint().to_bytes_le()),
                ("into_bigint().to_bytes_be reversed", |x| {
                    let mut v = x.into_bigint().to_bytes_be();
                    v.reverse();
                    v
                }),
                ("BigInt::from(F)", |x| {
                    let bi: <F as PrimeField>::BigInt = x.into();
                    bi.to_bytes_le()
                }),
                ("BigUint::from(F)", |x| {
                    let bu: num_bigint::BigUint = x.into();
                    let mut v = bu.to_bytes_le();
                    v.resize(N8, 0);
                    v
                }),
                ("Debug hex", |x| {
                    // "Fq(0x<big-endian hex>)"
                    let s = format!("{:?}", x);
                    let a = s.find("0x").map(|i| i + 2).unwrap_or(0);
                    let h = &s[a..s.len() - 1];
                    let mut v: Vec<u8> =
                        (0..h.len() / 2).map(|i| u8::from_str_radix(&h[2 * i..2 * i + 2], 16).unwrap_or(0)).collect();
                    v.reverse();
                    v
                }),
                ("to_base_prime_field_elements", |x| x.to_base_prime_field_elements().next().unwrap().to_bytes_le().to_vec()),
            ];
            #[cfg(not(feature = "ark"))]
            pub const SER: &[(&str, SerF)] = &[
                ("to_bytes_le", |x| x.to_bytes_le().to_vec()),
                ("to_bytes", |x| x.to_bytes().to_vec()),
                ("Debug hex", |x| {
                    let s = format!("{:?}", x);
                    let a = s.find("0x").map(|i| i + 2).unwrap_or(0);
                    let h = &s[a..s.len() - 1];
                    let mut v: Vec<u8> =
                        (0..h.len() / 2).map(|i| u8::from_str_radix(&h[2 * i..2 * i + 2], 16).unwrap_or(0)).collect();
                    v.reverse();
                    v
                }),
            ];
            /// constructors from a canonical n8-byte integer
            type CtorF = fn(&[u8]) -> F;
            #[cfg(feature = "ark")]
            pub const CTOR: &[(&str, CtorF)] = &[
                ("from_le_bytes_mod_order", |v| F::from_le_bytes_mod_order(v)),
                ("from_bytes_checked", |v| F::from_bytes_checked(v.try_into().unwrap()).unwrap()),
                ("deserialize_compressed", |v| F::deserialize_compressed(v).unwrap()),
                ("from_bigint", |v| {
                    let mut l = [0u64; $n64];
                    for (i, c) in v.chunks(8).enumerate() {
                        l[i] = u64::from_le_bytes(c.try_into().unwrap());
                    }
                    F::from_bigint(ark_ff::BigInt(l)).unwrap()
                }),
                ("From<BigInt>", |v| {
                    let mut l = [0u64; $n64];
                    for (i, c) in v.chunks(8).enumerate() {
                        l[i] = u64::from_le_bytes(c.try_into().unwrap());
                    }
                    F::from(ark_ff::BigInt(l))
                }),
                ("From<BigUint>", |v| F::from(num_bigint::BigUint::from_bytes_le(v))),
                ("PrimeField::from_le_bytes_mod_order", |v| <F as PrimeField>::from_le_bytes_mod_order(v)),
                ("from_random_bytes", |v| <F as Field>::from_random_bytes(v).unwrap()),
            ];
            #[cfg(not(feature = "ark"))]
            pub const CTOR: &[(&str, CtorF)] = &[
                ("from_le_bytes_mod_order", |v| F::from_le_bytes_mod_order(v)),
                ("from_bytes_checked", |v| F::from_bytes_checked(v.try_into().unwrap()).unwrap()),
            ];
            pub fn emit_ser(out: &mut dyn Write, ci: usize, si: usize, v: &[u8]) {
                let (cname, c) = CTOR[ci % CTOR.len()];
                let (sname, s) = SER[si % SER.len()];
                let ev = json!({"k":"fser","field":NAME,"form":format!("{} -> {}", cname, sname),"v":v});
                let r = guarded(|| s(c(v)));
                emit(out, finish(ev, r.map(|x| json!({"out":x}))));
            }
            /// checked parsers of exactly n8 bytes (any value) and of other lengths where the API allows
            type ParseF = fn(&[u8]) -> Option<F>;
            #[cfg(feature = "ark")]
            pub const PARSE: &[(&str, ParseF)] = &[
                ("from_bytes_checked", |v| F::from_bytes_checked(v.try_into().ok()?).ok()),
                ("deserialize_compressed", |v| if v.len() == N8 { F::deserialize_compressed(v).ok() } else { None }),
                ("deserialize_uncompressed", |v| if v.len() == N8 { F::deserialize_uncompressed(v).ok() } else { None }),
                ("deserialize_compressed_unchecked", |v| {
                    if v.len() == N8 {
                        F::deserialize_compressed_unchecked(v).ok()
                    } else {
                        None
                    }
                }),
                ("deserialize_compressed (1-byte reads)", |v| if v.len() == N8 { F::deserialize_compressed(Chunked::new(v, 1)).ok() } else { None }),
                ("deserialize_uncompressed_unchecked", |v| {
                    if v.len() == N8 {
                        F::deserialize_uncompressed_unchecked(v).ok()
                    } else {
                        None
                    }
                }),
                ("from_bigint", |v| {
                    if v.len() != N8 {
                        return None;
                    }
                    let mut l = [0u64; $n64];
                    for (i, c) in v.chunks(8).enumerate() {
                        l[i] = u64::from_le_bytes(c.try_into().unwrap());
                    }
                    F::from_bigint(ark_ff::BigInt(l))
                }),
            ];
            #[cfg(not(feature = "ark"))]
            pub const PARSE: &[(&str, ParseF)] =
                &[("from_bytes_checked", |v| F::from_bytes_checked(v.try_into().ok()?).ok())];
            pub fn emit_parse(out: &mut dyn Write, pi: usize, v: &[u8]) {
                let (pname, p) = PARSE[pi % PARSE.len()];
                let ev = json!({"k":"fparse","field":NAME,"form":pname,"b":v});
                let r = guarded(|| p(v));
                emit(
                    out,
                    finish(
                        ev,
                        r.map(|x| match x {
                            Some(y) => json!({"ok":true,"out":b(&y)}),
                            None => json!({"ok":false,"out":Vec::<u8>::new()}),
                        }),
                    ),
                );
            }
            type RedF = fn(&[u8]) -> F;
            #[cfg(feature = "ark")]
            pub const REDUCE: &[(&str, &str, RedF)] = &[
                ("from_le_bytes_mod_order", "le", |v| F::from_le_bytes_mod_order(v)),
                ("PrimeField::from_le_bytes_mod_order", "le", |v| <F as PrimeField>::from_le_bytes_mod_order(v)),
                ("PrimeField::from_be_bytes_mod_order", "be", |v| <F as PrimeField>::from_be_bytes_mod_order(v)),
                ("From<BigUint>", "le", |v| F::from(num_bigint::BigUint::from_bytes_le(v))),
                ("from_random_bytes", "le", |v| <F as Field>::from_random_bytes(v).unwrap()),
            ];
            #[cfg(not(feature = "ark"))]
            pub const REDUCE: &[(&str, &str, RedF)] = &[("from_le_bytes_mod_order", "le", |v| F::from_le_bytes_mod_order(v))];
            pub fn emit_reduce(out: &mut dyn Write, ri: usize, v: &[u8]) {
                let (name, endian, f) = REDUCE[ri % REDUCE.len()];
                let ev = json!({"k":"freduce","field":NAME,"form":name,"endian":endian,"b":v});
                let r = guarded(|| f(v));
                emit(out, finish(ev, r.map(|x| json!({"out":b(&x)}))));
            }
            #[cfg(feature = "ark")]
            pub fn emit_flags(out: &mut dyn Write, r: &mut ChaCha20Rng, a: F) {
                use ark_ec::models::short_weierstrass::SWFlags;
                use ark_ec::models::twisted_edwards::TEFlags;
                fn ser<Fl: Flags>(a: F, fl: Fl) -> Vec<u8> {
                    let mut v = Vec::new();
                    a.serialize_with_flags(&mut v, fl).unwrap();
                    v
                }
                fn de<Fl: Flags>(v: &[u8]) -> Value {
                    match F::deserialize_with_flags::<_, Fl>(v) {
                        Ok((x, fl)) => json!({"ok":true,"err":"","out":b(&x),"mask":fl.u8_bitmask()}),
                        Err(ark_serialize::SerializationError::UnexpectedFlags) => json!({"ok":false,"err":"UnexpectedFlags"}),
                        Err(ark_serialize::SerializationError::InvalidData) => json!({"ok":false,"err":"InvalidData"}),
                        Err(_) => json!({"ok":false,"err":"Other"}),
                    }
                }
                let w = below(r, 6);
                let (ty, mask, bytes) = match w {
                    0 => ("Empty", 0u8, guarded(|| ser(a, EmptyFlags))),
                    1 => ("TE", 0, guarded(|| ser(a, TEFlags::XIsPositive))),
                    2 => ("TE", 128, guarded(|| ser(a, TEFlags::XIsNegative))),
                    3 => ("SW", 0, guarded(|| ser(a, SWFlags::YIsPositive))),
                    4 => ("SW", 128, guarded(|| ser(a, SWFlags::YIsNegative))),
                    _ => ("SW", 64, guarded(|| ser(a, SWFlags::PointAtInfinity))),
                };
                let ev = json!({"k":"fserflags","field":NAME,"ty":ty,"a":b(&a),"mask":mask});
                let bytes2 = bytes.clone().unwrap_or_default();
                emit(out, finish(ev, bytes.map(|x| json!({"out":x}))));
                // deserialise what was written, and mutated versions (arbitrary top bits, non-canonical)
                if bytes2.len() == N8 {
                    let mut cands = vec![bytes2.clone()];
                    let mut m = bytes2.clone();
                    m[N8 - 1] ^= 1 << (below(r, 8));
                    cands.push(m);
                    let mut m2 = rbytes(r, N8);
                    if below(r, 2) == 0 {
                        m2[N8 - 1] |= 0xc0;
                    }
                    cands.push(m2);
                    for c in cands {
                        let ev = json!({"k":"fdeserflags","field":NAME,"ty":ty,"b":c});
                        let rr = guarded(|| match ty {
                            "Empty" => de::<EmptyFlags>(&c),
                            "TE" => de::<TEFlags>(&c),
                            _ => de::<SWFlags>(&c),
                        });
                        emit(out, finish(ev, rr));
                    }
                }
            }
            #[cfg(not(feature = "ark"))]
            pub fn emit_flags(_out: &mut dyn Write, _r: &mut ChaCha20Rng, _a: F) {}
            #[cfg(feature = "ark")]
            pub fn emit_str(out: &mut dyn Write, r: &mut ChaCha20Rng, a: F) {
                use std::str::FromStr;
                let ev = json!({"k":"fdisplay","field":NAME,"a":b(&a)});
                let rr = guarded(|| format!("{}", a));
                emit(
                    out,
                    finish(ev, rr.map(|s| json!({"ds": s.bytes().map(|c| (c as i64) - 48).collect::<Vec<i64>>()}))),
                );
                // FromStr on a random digit string (possibly above p, possibly with leading zeros)
                let nd = below(r, 125);
                let ds: Vec<u8> = (0..nd).map(|_| below(r, 10) as u8).collect();
                let s: String = ds.iter().map(|d| (b'0' + d) as char).collect();
                let ev = json!({"k":"ffromstr","field":NAME,"ds":ds});
                let rr = guarded(|| F::from_str(&s));
                emit(
                    out,
                    finish(
                        ev,
                        rr.and_then(|x| x.map_err(|_| "from_str rejected a digit string".to_string())).map(|x| json!({"out":b(&x)})),
                    ),
                );
            }
            #[cfg(not(feature = "ark"))]
            pub fn emit_str(_out: &mut dyn Write, _r: &mut ChaCha20Rng, _a: F) {}
            /// FromStr on structured digit strings: powers of ten, runs of zeros / nines at either end, every length
            #[cfg(feature = "ark")]
            pub fn emit_str_structured(out: &mut dyn Write, r: &mut ChaCha20Rng) {
                use std::str::FromStr;
                let mut strings: Vec<Vec<u8>> = Vec::new();
                for k in 0..140usize {
                    let mut p10 = vec![1u8];
                    p10.extend(std::iter::repeat(0u8).take(k));
                    strings.push(p10.clone());                         // 10^k
                    strings.push(vec![9u8; k + 1]);                    // 10^(k+1) - 1
                    let mut z = vec![0u8; k];                          // k leading zeros, then random digits
                    z.extend((0..(1 + below(r, 30))).map(|_| below(r, 10) as u8));
                    strings.push(z);
                    let mut t: Vec<u8> = (0..(1 + below(r, 60))).map(|_| 1 + below(r, 9) as u8).collect();   // random digits then k trailing zeros
                    t.extend(std::iter::repeat(0u8).take(k % 40));
                    strings.push(t);
                }
                for (i, ds) in strings.iter().enumerate() {
                    if i % 150 == 149 {
                        emit(out, json!({"k":"reset","build":BUILD}));
                    }
                    let s: String = ds.iter().map(|d| (b'0' + d) as char).collect();
                    let ev = json!({"k":"ffromstr","field":NAME,"ds":ds});
                    let rr = guarded(|| F::from_str(&s));
                    emit(
                        out,
                        finish(
                            ev,
                            rr.and_then(|x| x.map_err(|_| "from_str rejected a digit string".to_string())).map(|x| json!({"out":b(&x)})),
                        ),
                    );
                }
            }
            #[cfg(not(feature = "ark"))]
            pub fn emit_str_structured(_out: &mut dyn Write, _r: &mut ChaCha20Rng) {}
            #[cfg(feature = "ark")]
            pub fn emit_sqrt(out: &mut dyn Write, a: F) {
                let ev = json!({"k":"flegendre","field":NAME,"a":b(&a)});
                let rr = guarded(|| match a.legendre() {
                    ark_ff::LegendreSymbol::Zero => 0,
                    ark_ff::LegendreSymbol::QuadraticResidue => 1,
                    ark_ff::LegendreSymbol::QuadraticNonResidue => -1,
                });
                emit(out, finish(ev, rr.map(|x| json!({"out":x}))));
                let ev = json!({"k":"fsqrt","field":NAME,"a":b(&a)});
                let rr = guarded(|| a.sqrt());
                emit(
                    out,
                    finish(
                        ev,
                        rr.map(|x| match x {
                            Some(y) => json!({"some":true,"y":b(&y)}),
                            None => json!({"some":false,"y":Vec::<u8>::new()}),
                        }),
                    ),
                );
                // the in-place variants: the answer AND what the operand holds afterwards (unchanged on failure)
                let ev = json!({"k":"fsqrt","field":NAME,"form":"sqrt_in_place","a":b(&a)});
                let rr = guarded(|| {
                    let mut x = a;
                    let some = x.sqrt_in_place().is_some();
                    (some, x)
                });
                emit(out, finish(ev, rr.map(|(some, x)| json!({"some":some,"y":if some { b(&x) } else { Vec::<u8>::new() },"after":b(&x)}))));
                let ev = json!({"k":"fsqrt","field":NAME,"form":"inverse_in_place(after)","a":b(&a)});
                let rr = guarded(|| {
                    let mut x = a;
                    let some = x.inverse_in_place().is_some();
                    (some, x)
                });
                emit(out, finish(ev, rr.map(|(some, x)| json!({"some":some,"y":Vec::<u8>::new(),"after":b(&x),"inv":true}))));
            }
            #[cfg(not(feature = "ark"))]
            pub fn emit_sqrt(_out: &mut dyn Write, _a: F) {}

            pub fn operands(r: &mut ChaCha20Rng) -> F {
                of(&rand_operand_bytes(r, &$modulus))
            }

            /// arithmetic: every form x alphabet pairs (structured), then random chained operations
            pub fn arith(out: &mut dyn Write, r: &mut ChaCha20Rng, n: usize, structured: bool) {
                emit(out, json!({"k":"reset","build":BUILD}));
                if structured {
                    let al: Vec<F> = operand_alphabet(&$modulus).iter().map(|x| of(x)).collect();
                    let mut cnt = 0usize;
                    for i in 0..BIN.len() {
                        // every form on a rotating selection of alphabet pairs
                        for j in 0..al.len() {
                            cnt += 1;
                            let a = al[j];
                            let bb = al[(j * 7 + i * 3 + cnt) % al.len()];
                            emit_bin(out, i, a, bb);
                        }
                        emit(out, json!({"k":"reset","build":BUILD}));
                    }
                    for i in 0..UN.len() {
                        for a in al.iter() {
                            emit_un(out, i, *a);
                        }
                    }
                    emit(out, json!({"k":"reset","build":BUILD}));
                    // pairs whose exact result sits on a reduction boundary: a + (p - a) = p, a - a = 0,
                    // a * a^-1 = 1, a * (-a^-1) = p - 1, a + 1, a - 1, through every form of the operator
                    for (j, a) in al.iter().enumerate() {
                        let inv = a.inverse().unwrap_or(F::ONE);
                        for i in 0..BIN.len() {
                            if (i + j) % 3 != 0 {
                                continue;
                            }
                            let bb = match BIN[i].0 {
                                "add" => -*a,
                                "sub" => *a,
                                "mul" => if j % 2 == 0 { inv } else { -inv },
                                _ => if j % 2 == 0 { *a } else { -*a },
                            };
                            emit_bin(out, i, *a, bb);
                            emit_bin(out, i, *a, if j % 2 == 0 { F::ONE } else { -F::ONE });
                        }
                    }
                    emit(out, json!({"k":"reset","build":BUILD}));
                    for i in 0..FOLD.len() {
                        for xs in [vec![], vec![al[2]], vec![al[2], al[3]], vec![al[1], al[2], al[3], al[4], al[5]], vec![al[0], al[3]]] {
                            emit_fold(out, i, &xs);
                        }
                        // long iterators, around plausible chunk sizes (the zero of the alphabet is skipped so that
                        // products stay informative)
                        for n in [16usize, 17, 64, 65, 255, 256, 257, 1000] {
                            let xs: Vec<F> = (0..n).map(|j| al[1 + (j * 7 + n) % (al.len() - 1)]).filter(|x| *x != F::ZERO).collect();
                            emit_fold(out, i, &xs);
                        }
                    }
                    for a in al.iter().take(12) {
                        for bb in al.iter().take(12) {
                            cnt += 1;
                            emit_eq(out, cnt, *a, *bb);
                        }
                    }
                    for a in al.iter() {
                        for i in 0..ALIAS.len() {
                            emit_alias(out, i, *a);
                        }
                    }
                }
                let mut pool: Vec<F> = (0..8).map(|_| operands(r)).collect();
                let mut ctr = 0usize;
                for i in 0..n {
                    if i % 200 == 199 {
                        emit(out, json!({"k":"reset","build":BUILD}));
                    }
                    ctr += 1;
                    let a = pool[below(r, pool.len())];
                    let bb = if below(r, 8) == 0 { a } else { pool[below(r, pool.len())] };
                    let slot = below(r, pool.len());
                    match below(r, 100) {
                        0..=59 => {
                            if let Some(x) = emit_bin(out, ctr, a, bb) {
                                pool[slot] = x;
                            }
                        }
                        60..=74 => {
                            if let Some(x) = emit_un(out, ctr, a) {
                                pool[slot] = x;
                            }
                        }
                        75..=79 => {
                            let k = below(r, 6);
                            let xs: Vec<F> = (0..k).map(|_| pool[below(r, 8)]).collect();
                            emit_fold(out, ctr, &xs);
                        }
                        80..=84 => emit_eq(out, ctr, a, bb),
                        85..=89 => emit_from(out, r),
                        90..=93 => {
                            let nl = 1 + below(r, $n64 + 4);   // up to 3 limbs longer than the modulus
                            let limbs: Vec<u64> = (0..nl)
                                .map(|_| match below(r, 4) {
                                    0 => 0,
                                    1 => u64::MAX,
                                    2 => below(r, 5) as u64,
                                    _ => u64::from_le_bytes(rbytes(r, 8).try_into().unwrap()),
                                })
                                .collect();
                            emit_pow(out, a, &limbs);
                        }
                        _ => pool[slot] = operands(r),
                    }
                }
            }
            /// conversions and encodings
            pub fn conv(out: &mut dyn Write, r: &mut ChaCha20Rng, n: usize, structured: bool) {
                emit(out, json!({"k":"reset","build":BUILD}));
                let m = $modulus.to_vec();
                let mut ctr = 0usize;
                if structured {
                    // canonical values through every constructor x serialiser pair
                    let al = operand_alphabet(&m);
                    for (j, v) in al.iter().enumerate() {
                        for ci in 0..CTOR.len() {
                            emit_ser(out, ci, j + ci, v);
                        }
                        for si in 0..SER.len() {
                            emit_ser(out, j + si, si, v);
                        }
                    }
                    emit(out, json!({"k":"reset","build":BUILD}));
                    // parsing: p-1, p, p+1, 2^k, all-ones, wrong lengths
                    let mut cands: Vec<Vec<u8>> = vec![
                        le_sub_small(&m, 1),
                        m.clone(),
                        le_add_small(&m, 1),
                        le_add_small(&m, 2),
                        vec![0xff; N8],
                        vec![0; N8],
                        le_pow2(N8 * 8 - 1, N8),
                        le_pow2(N8 * 8 - 2, N8),
                        le_pow2(N8 * 8 - 3, N8),
                        le_pow2(N8 * 8 - 4, N8),
                        le_pow2(N8 * 8 - 5, N8),
                        le_pow2(N8 * 8 - 6, N8),
                        le_pow2(N8 * 8 - 7, N8),
                        le_pow2(N8 * 8 - 8, N8),
                        le_add(&m, &m)[..N8].to_vec(),
                    ];
                    for v in al.iter().take(10) {
                        cands.push(v.clone());
                    }
                    // comparison boundaries: the modulus with one 32-bit limb moved by +-1, lower limbs kept / zeroed / all ones
                    for j in 0..(N8 / 4) {
                        let step = le_pow2(32 * j, N8);
                        let up = le_add(&m, &step);
                        if up.len() == N8 || (up.len() == N8 + 1 && up[N8] == 0) {
                            let mut u = up[..N8].to_vec();
                            cands.push(u.clone());
                            for b in u.iter_mut().take(4 * j) {
                                *b = 0;
                            }
                            cands.push(u);
                        }
                        let dn = le_sub(&m, &step);
                        cands.push(dn.clone());
                        let mut d1 = dn.clone();
                        for b in d1.iter_mut().take(4 * j) {
                            *b = 0xff;
                        }
                        cands.push(d1);
                        let mut d0 = dn;
                        for b in d0.iter_mut().take(4 * j) {
                            *b = 0;
                        }
                        cands.push(d0);
                    }
                    for c in cands.iter() {
                        for pi in 0..PARSE.len() {
                            emit_parse(out, pi, c);
                        }
                    }
                    for len in [0usize, 1, N8 - 1, N8 + 1, 2 * N8] {
                        emit_parse(out, 0, &vec![1u8; len]);
                    }
                    emit(out, json!({"k":"reset","build":BUILD}));
                    // reduction of every length 0..=200
                    for len in 0..=200usize {
                        let v = match len % 4 {
                            0 => vec![0xffu8; len],
                            1 => rbytes(r, len),
                            2 => {
                                let mut x = vec![0u8; len];
                                if len > 0 {
                                    x[len - 1] = 1;
                                }
                                x
                            }
                            _ => {
                                let mut x = m.clone();
                                x.resize(len.max(N8), 0);
                                x.truncate(len);
                                x
                            }
                        };
                        for ri in 0..REDUCE.len() {
                            emit_reduce(out, ri, &v);
                        }
                    }
                    emit(out, json!({"k":"reset","build":BUILD}));
                    emit_str_structured(out, r);
                    emit(out, json!({"k":"reset","build":BUILD}));
                    for a in al.iter() {
                        emit_str(out, r, of(a));
                    }
                    for k in 1..=4usize {
                        // p, p-1, p+1 placed in every chunk position
                        for delta in [0i32, -1, 1] {
                            let base = if delta == 0 {
                                m.clone()
                            } else if delta < 0 {
                                le_sub_small(&m, 1)
                            } else {
                                le_add_small(&m, 1)
                            };
                            let mut v = vec![0u8; N8 * (k - 1)];
                            v.extend_from_slice(&base);
                            for ri in 0..REDUCE.len() {
                                emit_reduce(out, ri, &v);
                            }
                        }
                    }
                }
                for i in 0..n {
                    if i % 200 == 199 {
                        emit(out, json!({"k":"reset","build":BUILD}));
                    }
                    ctr += 1;
                    match below(r, 100) {
                        0..=19 => {
                            let mut v = rand_operand_bytes(r, &m);
                            v.truncate(N8);
                            v.resize(N8, 0);
                            if !le_less(&v, &m) {
                                v = le_sub(&v, &m);
                                if !le_less(&v, &m) {
                                    v[N8 - 1] = 0;
                                }
                            }
                            let si = below(r, SER.len());
                            emit_ser(out, ctr, si, &v);
                        }
                        20..=34 => {
                            let mut v = rbytes(r, N8);
                            match below(r, 4) {
                                0 => v[N8 - 1] &= 0x1f,
                                1 => {
                                    v = le_add_small(&m, below(r, 1000) as u32)[..N8].to_vec();
                                }
                                2 => {
                                    v = le_sub_small(&m, 1 + below(r, 1000) as u32);
                                }
                                _ => {}
                            }
                            emit_parse(out, ctr, &v);
                        }
                        35..=54 => {
                            let len = below(r, 201);
                            let v = rbytes(r, len);
                            emit_reduce(out, ctr, &v);
                        }
                        55..=69 => {
                            let a = operands(r);
                            emit_flags(out, r, a);
                        }
                        70..=79 => {
                            let a = operands(r);
                            emit_str(out, r, a);
                        }
                        80..=89 => {
                            let a = operands(r);
                            let bb = if below(r, 5) == 0 { a } else { operands(r) };
                            emit_cmp(out, a, bb);
                        }
                        _ => {
                            let v = rand_operand_bytes(r, &m);
                            let a = of(&v);
                            emit_hash(out, a);
                            // the same value reached another way must hash equally
                            let a2 = a + F::ONE - F::ONE;
                            emit_hash(out, a2);
                        }
                    }
                }
            }
            /// C12: calls that both builds offer, chosen by name
            pub fn equiv(out: &mut dyn Write, r: &mut ChaCha20Rng, n: usize) {
                emit(out, json!({"k":"reset","build":BUILD}));
                let un_names = ["-a", "F::neg(a)", "a.square()", "a.inverse()", "clone"];
                let un_ix: Vec<usize> = un_names.iter().map(|nm| UN.iter().position(|f| f.1 == *nm).unwrap()).collect();
                let ser_names = ["to_bytes_le", "to_bytes", "Debug hex"];
                let ser_ix: Vec<usize> = ser_names.iter().map(|nm| SER.iter().position(|f| f.0 == *nm).unwrap()).collect();
                let ctor_names = ["from_le_bytes_mod_order", "from_bytes_checked"];
                let ctor_ix: Vec<usize> = ctor_names.iter().map(|nm| CTOR.iter().position(|f| f.0 == *nm).unwrap()).collect();
                let parse_ix = PARSE.iter().position(|f| f.0 == "from_bytes_checked").unwrap();
                let red_ix = REDUCE.iter().position(|f| f.0 == "from_le_bytes_mod_order").unwrap();
                let m = $modulus.to_vec();
                let mut pool: Vec<F> = (0..8).map(|_| operands(r)).collect();
                for i in 0..n {
                    if i % 200 == 199 {
                        emit(out, json!({"k":"reset","build":BUILD}));
                    }
                    let a = pool[below(r, 8)];
                    let bb = if below(r, 8) == 0 { a } else { pool[below(r, 8)] };
                    let slot = below(r, 8);
                    match below(r, 100) {
                        0..=44 => {
                            if let Some(x) = emit_bin(out, i, a, bb) {
                                pool[slot] = x;
                            }
                        }
                        45..=56 => {
                            if let Some(x) = emit_un(out, un_ix[i % un_ix.len()], a) {
                                pool[slot] = x;
                            }
                        }
                        57..=60 => {
                            let k = below(r, 6);
                            let xs: Vec<F> = (0..k).map(|_| pool[below(r, 8)]).collect();
                            emit_fold(out, i, &xs);
                        }
                        61..=64 => emit_eq(out, i, a, bb),
                        65..=68 => emit_from(out, r),
                        69..=76 => {
                            let mut v = rand_operand_bytes(r, &m);
                            v.truncate(N8);
                            v.resize(N8, 0);
                            while !le_less(&v, &m) {
                                v = le_sub(&v, &m);
                            }
                            emit_ser(out, ctor_ix[i % 2], ser_ix[i % 3], &v);
                        }
                        77..=82 => {
                            let mut v = rbytes(r, N8);
                            if below(r, 2) == 0 {
                                v[N8 - 1] &= 0x0f;
                            }
                            emit_parse(out, parse_ix, &v);
                        }
                        83..=90 => {
                            let len = below(r, 201);
                            let v = rbytes(r, len);
                            emit_reduce(out, red_ix, &v);
                        }
                        91..=94 => emit_cmp(out, a, bb),
                        95..=96 => emit_hash(out, a),
                        _ => pool[slot] = operands(r),
                    }
                }
            }
            /// operand pairs of a TLC-generated plan (spec/FieldPlan.tla) through every form of the operator,
            /// plus squaring when both operands are equal
            pub fn plan_line(out: &mut dyn Write, op: &str, a: &[u8], bb: &[u8]) {
                let (x, y) = (of(a), of(bb));
                for i in 0..BIN.len() {
                    if BIN[i].0 == op {
                        emit_bin(out, i, x, y);
                    }
                }
                if op == "eq" {
                    // pairs that differ in a structured way in their internal representation: every equality form,
                    // both orders, the ordering, and hashing coherence
                    for i in 0..EQ.len() {
                        emit_eq(out, i, x, y);
                        emit_eq(out, i, y, x);
                    }
                    emit_cmp(out, x, y);
                    emit_cmp(out, y, x);
                }
                if op == "mul" {
                    // the product also through square / inverse paths: (x*y) computed as ((x+y)^2 - (x-y)^2)/4 is not
                    // an API call; instead exercise square on both operands and the unary forms on the product
                    for i in 0..UN.len() {
                        if UN[i].0 == "square" {
                            emit_un(out, i, x);
                        }
                    }
                }
            }
            /// the same plan line through the calls BOTH builds share (C12): the first form of the operator, `==` in
            /// both orders, the ordering
            pub fn plan_line_shared(out: &mut dyn Write, op: &str, a: &[u8], bb: &[u8]) {
                let (x, y) = (of(a), of(bb));
                if op == "eq" {
                    emit_eq(out, 0, x, y);
                    emit_eq(out, 0, y, x);
                    emit_cmp(out, x, y);
                } else if let Some(i) = BIN.iter().position(|f| f.0 == op) {
                    emit_bin(out, i, x, y);
                }
            }
            pub fn sqrt(out: &mut dyn Write, r: &mut ChaCha20Rng, n: usize) {
                emit(out, json!({"k":"reset","build":BUILD}));
                let al: Vec<F> = operand_alphabet(&$modulus).iter().map(|x| of(x)).collect();
                for a in al.iter().take(16) {
                    emit_sqrt(out, *a);
                    emit_sqrt(out, a.square());
                }
                for i in 0..n {
                    if i % 100 == 99 {
                        emit(out, json!({"k":"reset","build":BUILD}));
                    }
                    let a = operands(r);
                    emit_sqrt(out, if i % 2 == 0 { a } else { a.square() });
                }
            }
        }
    };
}

field_suite!(fq, decaf377::Fq, "Fq", 32, 4, Q_LE, true);
field_suite!(fr, decaf377::Fr, "Fr", 32, 4, R_LE, false);
field_suite!(fp, decaf377::Fp, "Fp", 48, 6, P_LE, false);

/// Fq-only forms on one pair: constant-time selection and equality
fn fq_pair(out: &mut dyn Write, a: &decaf377::Fq, b: &decaf377::Fq) {
    use decaf377::Fq;
    use subtle::{ConditionallySelectable, ConstantTimeEq};
    for choice in [0u8, 1] {
        let ev = json!({"k":"fsel","field":"Fq","form":"conditional_select","a":fq::b(a),"b":fq::b(b),"choice":choice});
        let rr = guarded(|| Fq::conditional_select(a, b, choice.into()));
        emit(out, finish(ev, rr.map(|x| json!({"out":fq::b(&x)}))));
    }
    for (x, y) in [(a, b), (b, a)] {
        let ev = json!({"k":"feq","field":"Fq","form":"ct_eq","a":fq::b(x),"b":fq::b(y)});
        let rr = guarded(|| bool::from(x.ct_eq(y)));
        emit(out, finish(ev, rr.map(|x| json!({"out":x}))));
    }
    // a value and the same value reached by arithmetic must be ct_eq
    let a2 = *a + *b - *b;
    let ev = json!({"k":"feq","field":"Fq","form":"ct_eq","a":fq::b(a),"b":fq::b(&a2)});
    let rr = guarded(|| bool::from(a.ct_eq(&a2)));
    emit(out, finish(ev, rr.map(|x| json!({"out":x}))));
}

/// Fq-only forms: constant-time selection / equality, `power`
fn fq_extra(out: &mut dyn Write, r: &mut ChaCha20Rng, n: usize) {
    use decaf377::Fq;
    emit(out, json!({"k":"reset","build":BUILD}));
    let al: Vec<Fq> = operand_alphabet(&Q_LE).iter().map(|x| fq::of(x)).collect();
    let mut pairs: Vec<(Fq, Fq)> = Vec::new();
    for i in 0..al.len().min(10) {
        for j in 0..al.len().min(10) {
            pairs.push((al[i], al[j]));
        }
    }
    for _ in 0..n {
        let a = fq::operands(r);
        let b = if below(r, 4) == 0 { a } else { fq::operands(r) };
        pairs.push((a, b));
    }
    for (i, (a, b)) in pairs.iter().enumerate() {
        if i % 200 == 199 {
            emit(out, json!({"k":"reset","build":BUILD}));
        }
        fq_pair(out, a, b);
        // power: exponents with a small low limb (the call is O(low limb) on the pinned tree)
        if i % 3 == 0 {
            // 1 .. 9 limbs: longer than the modulus, longer than any fixed-width buffer
            let nl = 1 + below(r, 9);
            let mut limbs: Vec<u64> = (0..nl)
                .map(|_| match below(r, 3) {
                    0 => below(r, 3) as u64,
                    1 => u64::MAX,
                    _ => u64::from_le_bytes(rbytes(r, 8).try_into().unwrap()),
                })
                .collect();
            // the low limb stays small: a linear-time `power` (as on the pinned tree) must still terminate
            limbs[0] = below(r, 4096) as u64;
            let ev = json!({"k":"fpow","field":"Fq","form":"power","a":fq::b(a),"e":limbs_to_bytes(&limbs)});
            let rr = guarded(|| a.power(&limbs));
            emit(out, finish(ev, rr.map(|x| json!({"out":fq::b(&x)}))));
        }
    }
}

pub fn record(suite: &str, n: usize, seed: u64, arg: &str, out: &mut dyn Write) -> bool {
    let mut r = rng(seed, suite);
    let structured = arg != "random";
    match suite {
        "farith_Fq" => fq::arith(out, &mut r, n, structured),
        "farith_Fr" => fr::arith(out, &mut r, n, structured),
        "farith_Fp" => fp::arith(out, &mut r, n, structured),
        "fconv_Fq" => fq::conv(out, &mut r, n, structured),
        "fconv_Fr" => fr::conv(out, &mut r, n, structured),
        "fconv_Fp" => fp::conv(out, &mut r, n, structured),
        "fsqrt_Fq" => fq::sqrt(out, &mut r, n),
        "fsqrt_Fr" => fr::sqrt(out, &mut r, n),
        "fsqrt_Fp" => fp::sqrt(out, &mut r, n),
        "fqextra" => fq_extra(out, &mut r, n),
        "fieldfile" => {
            emit(out, json!({"k":"reset","build":BUILD}));
            let text = std::fs::read_to_string(arg).expect("plan file");
            for (i, line) in text.lines().enumerate() {
                if i % 40 == 39 {
                    emit(out, json!({"k":"reset","build":BUILD}));
                }
                let v: Value = serde_json::from_str(line).expect("json");
                let a: Vec<u8> = serde_json::from_value(v["a"].clone()).expect("a");
                let b: Vec<u8> = serde_json::from_value(v["b"].clone()).expect("b");
                let op = v["op"].as_str().unwrap_or("");
                match v["field"].as_str().unwrap_or("") {
                    "Fq" => {
                        fq::plan_line(out, op, &a, &b);
                        if op == "eq" {
                            fq_pair(out, &fq::of(&a), &fq::of(&b));
                        }
                    }
                    "Fr" => fr::plan_line(out, op, &a, &b),
                    _ => fp::plan_line(out, op, &a, &b),
                }
            }
        }
        "fequivfile" => {
            emit(out, json!({"k":"reset","build":BUILD}));
            let text = std::fs::read_to_string(arg).expect("plan file");
            for (i, line) in text.lines().enumerate() {
                if i % 100 == 99 {
                    emit(out, json!({"k":"reset","build":BUILD}));
                }
                let v: Value = serde_json::from_str(line).expect("json");
                let a: Vec<u8> = serde_json::from_value(v["a"].clone()).expect("a");
                let b: Vec<u8> = serde_json::from_value(v["b"].clone()).expect("b");
                let op = v["op"].as_str().unwrap_or("");
                match v["field"].as_str().unwrap_or("") {
                    "Fq" => {
                        fq::plan_line_shared(out, op, &a, &b);
                        if op == "eq" {
                            fq_pair(out, &fq::of(&a), &fq::of(&b));
                        }
                    }
                    "Fr" => fr::plan_line_shared(out, op, &a, &b),
                    _ => fp::plan_line_shared(out, op, &a, &b),
                }
            }
        }
        "fequiv_Fq" => fq::equiv(out, &mut r, n),
        "fequiv_Fr" => fr::equiv(out, &mut r, n),
        "fequiv_Fp" => fp::equiv(out, &mut r, n),
        _ => return false,
    }
    true
}
