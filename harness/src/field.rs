//! Field-level suites (filled in below).
use std::io::Write;
pub fn record(_suite: &str, _n: usize, _seed: u64, _arg: &str, _out: &mut dyn Write) -> bool {
    false
}
