//! Group-level suites: a register machine over real `Element`s.  Every public call
//! form is one table entry; every event is logged with its arguments and the internal
//! representative [X,Y,Z,T] of any produced element (through the cfg(decaf377_verif)
//! accessor), so that the trace specification can bind it.
use crate::common::*;
use decaf377::{Element, Encoding, Fq, Fr};
use rand_chacha::ChaCha20Rng;
use rand_core::RngCore;
use serde_json::{json, Value};
use std::convert::{TryFrom, TryInto};
use std::io::Write;

#[cfg(feature = "ark")]
use ark_ec::{AffineRepr, CurveGroup, Group, VariableBaseMSM};
#[cfg(feature = "ark")]
use ark_ff::Zero;
#[cfg(feature = "ark")]
use ark_serialize::{CanonicalDeserialize, CanonicalSerialize};
#[cfg(feature = "ark")]
use decaf377_affine::AffinePoint;
#[cfg(feature = "ark")]
mod decaf377_affine {
    pub type AffinePoint = <decaf377::Element as ark_ec::CurveGroup>::Affine;
}

pub const NREG: usize = 14;

pub fn fq_bytes(x: &Fq) -> Vec<u8> {
    x.to_bytes_le().to_vec()
}
pub fn fq_from(b: &[u8]) -> Fq {
    Fq::from_le_bytes_mod_order(b)
}
pub fn fr_from(b: &[u8]) -> Fr {
    Fr::from_le_bytes_mod_order(b)
}
pub fn rep(e: &Element) -> Value {
    let c = e.verif_raw();
    json!([fq_bytes(&c[0]), fq_bytes(&c[1]), fq_bytes(&c[2]), fq_bytes(&c[3])])
}
#[cfg(feature = "ark")]
pub fn aff(e: Element) -> AffinePoint {
    AffinePoint::from(e)
}
#[cfg(feature = "ark")]
pub fn el(a: AffinePoint) -> Element {
    Element::from(a)
}

// ------------------------------------------------------------------ form tables
type BinF = fn(Element, Element) -> Element;
type UnF = fn(Element) -> Element;
type MulF = fn(Element, Fr) -> Element;
type EncF = fn(Element) -> Vec<u8>;
type DecF = fn(&[u8]) -> Result<Element, String>;
type EqF = fn(Element, Element) -> bool;
type IdF = fn(Element) -> bool;

fn err_name(e: decaf377::EncodingError) -> String {
    match e {
        decaf377::EncodingError::InvalidEncoding => "InvalidEncoding".into(),
        decaf377::EncodingError::InvalidSliceLength => "InvalidSliceLength".into(),
    }
}

#[cfg(feature = "ark")]
pub const BIN_FORMS: &[(&str, &str, BinF)] = &[
    ("add", "&E+&E", |a, b| &a + &b),
    ("add", "E+&E", |a, b| a + &b),
    ("add", "&E+E", |a, b| &a + b),
    ("add", "E+E", |a, b| a + b),
    ("add", "E+=&E", |mut a, b| {
        a += &b;
        a
    }),
    ("add", "E+=E", |mut a, b| {
        a += b;
        a
    }),
    ("sub", "&E-&E", |a, b| &a - &b),
    ("sub", "E-&E", |a, b| a - &b),
    ("sub", "&E-E", |a, b| &a - b),
    ("sub", "E-E", |a, b| a - b),
    ("sub", "E-=&E", |mut a, b| {
        a -= &b;
        a
    }),
    ("sub", "E-=E", |mut a, b| {
        a -= b;
        a
    }),
    // mixed projective / affine (ops/projective.rs)
    ("add", "E+&A", |a, b| a + &aff(b)),
    ("add", "E+A", |a, b| a + aff(b)),
    ("add", "A+A", |a, b| aff(a) + aff(b)),
    ("add", "A+E", |a, b| aff(a) + b),
    ("add", "A+&E", |a, b| aff(a) + &b),
    ("add", "E+=&A", |mut a, b| {
        a += &aff(b);
        a
    }),
    ("add", "E+=A", |mut a, b| {
        a += aff(b);
        a
    }),
    ("sub", "E-=&A", |mut a, b| {
        a -= &aff(b);
        a
    }),
    ("sub", "E-=A", |mut a, b| {
        a -= aff(b);
        a
    }),
    ("sub", "E-&A", |a, b| a - &aff(b)),
    ("sub", "E-A", |a, b| a - aff(b)),
    // affine / affine (ops/affine.rs)
    ("add", "&A+&A", |a, b| el(&aff(a) + &aff(b))),
    ("add", "A+&A", |a, b| aff(a) + &aff(b)),
    ("add", "&A+A", |a, b| el(&aff(a) + aff(b))),
    ("add", "A+=&A", |a, b| {
        let mut x = aff(a);
        x += &aff(b);
        el(x)
    }),
    ("add", "A+=A", |a, b| {
        let mut x = aff(a);
        x += aff(b);
        el(x)
    }),
    ("sub", "&A-&A", |a, b| el(&aff(a) - &aff(b))),
    ("sub", "A-&A", |a, b| el(aff(a) - &aff(b))),
    ("sub", "&A-A", |a, b| el(&aff(a) - aff(b))),
    ("sub", "A-A", |a, b| el(aff(a) - aff(b))),
    ("sub", "A-=&A", |a, b| {
        let mut x = aff(a);
        x -= &aff(b);
        el(x)
    }),
    ("sub", "A-=A", |a, b| {
        let mut x = aff(a);
        x -= aff(b);
        el(x)
    }),
];
#[cfg(not(feature = "ark"))]
pub const BIN_FORMS: &[(&str, &str, BinF)] = &[
    ("add", "&E+&E", |a, b| &a + &b),
    ("add", "E+&E", |a, b| a + &b),
    ("add", "&E+E", |a, b| &a + b),
    ("add", "E+E", |a, b| a + b),
    ("add", "E+=&E", |mut a, b| {
        a += &b;
        a
    }),
    ("add", "E+=E", |mut a, b| {
        a += b;
        a
    }),
    ("sub", "&E-&E", |a, b| &a - &b),
    ("sub", "E-&E", |a, b| a - &b),
    ("sub", "&E-E", |a, b| &a - b),
    ("sub", "E-E", |a, b| a - b),
    ("sub", "E-=&E", |mut a, b| {
        a -= &b;
        a
    }),
    ("sub", "E-=E", |mut a, b| {
        a -= b;
        a
    }),
];

#[cfg(feature = "ark")]
pub const NEG_FORMS: &[(&str, UnF)] = &[
    ("-E", |a| -a),
    ("E.negate()", |a| a.negate()),
    ("-A", |a| el(-aff(a))),
];
#[cfg(not(feature = "ark"))]
pub const NEG_FORMS: &[(&str, UnF)] = &[("-E", |a| -a)];

#[cfg(feature = "ark")]
pub const DBL_FORMS: &[(&str, UnF)] = &[
    ("E.double()", |a| Group::double(&a)),
    ("E.double_in_place()", |mut a| {
        a.double_in_place();
        a
    }),
];
#[cfg(not(feature = "ark"))]
pub const DBL_FORMS: &[(&str, UnF)] = &[("E.double()", |a| a.double())];

/// operators applied to ONE object on both sides (the same reference twice): op, form, f
#[cfg(feature = "ark")]
pub const ALIAS_FORMS: &[(&str, &str, UnF)] = &[
    ("add", "&E+&E (same object)", |a| &a + &a),
    ("sub", "&E-&E (same object)", |a| &a - &a),
    ("add", "&A+&A (same object)", |a| {
        let x = aff(a);
        el(&x + &x)
    }),
    ("sub", "&A-&A (same object)", |a| {
        let x = aff(a);
        el(&x - &x)
    }),
    ("add", "E+&E (rhs borrows the moved value's copy)", |a| a + &a),
    ("sub", "E-&E (rhs borrows the moved value's copy)", |a| a - &a),
];
#[cfg(not(feature = "ark"))]
pub const ALIAS_FORMS: &[(&str, &str, UnF)] = &[
    ("add", "&E+&E (same object)", |a| &a + &a),
    ("sub", "&E-&E (same object)", |a| &a - &a),
    ("add", "E+&E (rhs borrows the moved value's copy)", |a| a + &a),
    ("sub", "E-&E (rhs borrows the moved value's copy)", |a| a - &a),
];

#[cfg(feature = "ark")]
pub const SUM_FORMS: &[(&str, fn(&[Element]) -> Element)] = &[
    ("Sum<E>", |v| v.iter().copied().sum()),
    ("Sum<&E>", |v| v.iter().sum()),
    ("Sum<A>", |v| v.iter().map(|e| aff(*e)).sum()),
    ("Sum<&A>", |v| {
        let a: Vec<AffinePoint> = v.iter().map(|e| aff(*e)).collect();
        a.iter().sum()
    }),
];
#[cfg(not(feature = "ark"))]
pub const SUM_FORMS: &[(&str, fn(&[Element]) -> Element)] = &[];

#[cfg(feature = "ark")]
pub const MUL_FORMS: &[(&str, MulF)] = &[
    ("E*=&Fr", |mut a, k| {
        a *= &k;
        a
    }),
    ("E*=Fr", |mut a, k| {
        a *= k;
        a
    }),
    ("&E*&Fr", |a, k| &a * &k),
    ("&Fr*&E", |a, k| &k * &a),
    ("E*&Fr", |a, k| a * &k),
    ("&E*Fr", |a, k| &a * k),
    ("E*Fr", |a, k| a * k),
    ("Fr*&E", |a, k| k * &a),
    ("&Fr*E", |a, k| &k * a),
    ("Fr*E", |a, k| k * a),
    ("A*=&Fr", |a, k| {
        let mut x = aff(a);
        x *= &k;
        el(x)
    }),
    ("A*=Fr", |a, k| {
        let mut x = aff(a);
        x *= k;
        el(x)
    }),
    ("&A*&Fr", |a, k| el(&aff(a) * &k)),
    ("&Fr*&A", |a, k| el(&k * &aff(a))),
    ("A*&Fr", |a, k| aff(a) * &k),
    ("&A*Fr", |a, k| el(&aff(a) * k)),
    ("A*Fr", |a, k| aff(a) * k),
    ("Fr*&A", |a, k| el(k * &aff(a))),
    ("&Fr*A", |a, k| el(&k * aff(a))),
    ("Fr*A", |a, k| el(k * aff(a))),
];
#[cfg(not(feature = "ark"))]
pub const MUL_FORMS: &[(&str, MulF)] = &[
    ("E*=&Fr", |mut a, k| {
        a *= &k;
        a
    }),
    ("E*=Fr", |mut a, k| {
        a *= k;
        a
    }),
    ("&E*&Fr", |a, k| &a * &k),
    ("&Fr*&E", |a, k| &k * &a),
    ("E*&Fr", |a, k| a * &k),
    ("&E*Fr", |a, k| &a * k),
    ("E*Fr", |a, k| a * k),
    ("Fr*&E", |a, k| k * &a),
    ("&Fr*E", |a, k| &k * a),
    ("Fr*E", |a, k| k * a),
];

/// multiplication by an integer given as u64 limbs (any number of limbs)
#[cfg(feature = "ark")]
pub const MULBIG_FORMS: &[(&str, fn(Element, &[u64]) -> Element)] = &[
    ("E.mul_bigint", |a, l| Group::mul_bigint(&a, l)),
    ("A.mul_bigint", |a, l| AffineRepr::mul_bigint(&aff(a), l)),
];
#[cfg(not(feature = "ark"))]
pub const MULBIG_FORMS: &[(&str, fn(Element, &[u64]) -> Element)] = &[
    ("E.scalar_mul", |a, l| a.scalar_mul(l)),
    ("E.scalar_mul_vartime", |a, l| a.scalar_mul_vartime(l)),
];

#[cfg(feature = "ark")]
pub const MSM_FORMS: &[(&str, fn(&[Fr], &[Element]) -> Element)] = &[
    ("vartime_multiscalar_mul", |k, p| {
        Element::vartime_multiscalar_mul(k.iter(), p.iter())
    }),
    ("VariableBaseMSM::msm", |k, p| {
        let bases: Vec<AffinePoint> = p.iter().map(|e| aff(*e)).collect();
        <Element as VariableBaseMSM>::msm(&bases, k).unwrap()
    }),
    ("VariableBaseMSM::msm_unchecked", |k, p| {
        let bases: Vec<AffinePoint> = p.iter().map(|e| aff(*e)).collect();
        <Element as VariableBaseMSM>::msm_unchecked(&bases, k)
    }),
    ("normalize_batch+msm", |k, p| {
        let bases = Element::normalize_batch(p);
        <Element as VariableBaseMSM>::msm(&bases, k).unwrap()
    }),
];
#[cfg(not(feature = "ark"))]
pub const MSM_FORMS: &[(&str, fn(&[Fr], &[Element]) -> Element)] = &[];

fn hex_of_fmt(s: &str) -> Vec<u8> {
    // "decaf377::Element(<64 hex digits>)": the hex digits between the parentheses
    let a = s.find('(').map(|i| i + 1).unwrap_or(0);
    let b = s.rfind(')').unwrap_or(s.len());
    let h = &s[a..b];
    (0..h.len() / 2)
        .map(|i| u8::from_str_radix(&h[2 * i..2 * i + 2], 16).unwrap_or(0))
        .collect()
}

#[cfg(feature = "ark")]
pub const ENC_FORMS: &[(&str, EncF)] = &[
    ("vartime_compress", |e| e.vartime_compress().0.to_vec()),
    ("Encoding::from(&E)", |e| Encoding::from(&e).0.to_vec()),
    ("Encoding::from(E)", |e| Encoding::from(e).0.to_vec()),
    ("<[u8;32]>::from(E)", |e| <[u8; 32]>::from(e).to_vec()),
    ("<[u8;32]>::from(Encoding)", |e| {
        <[u8; 32]>::from(e.vartime_compress()).to_vec()
    }),
    ("CanonicalSerialize E", |e| {
        let mut v = Vec::new();
        e.serialize_compressed(&mut v).unwrap();
        v
    }),
    ("CanonicalSerialize A", |e| {
        let mut v = Vec::new();
        aff(e).serialize_compressed(&mut v).unwrap();
        v
    }),
    ("CanonicalSerialize Encoding", |e| {
        let mut v = Vec::new();
        e.vartime_compress().serialize_compressed(&mut v).unwrap();
        v
    }),
    // the same through a writer that accepts only a few bytes per call
    ("CanonicalSerialize E (3-byte writes)", |e| {
        let mut w = ShortWriter::new(3);
        e.serialize_compressed(&mut w).unwrap();
        w.buf
    }),
    ("CanonicalSerialize A (1-byte writes)", |e| {
        let mut w = ShortWriter::new(1);
        aff(e).serialize_compressed(&mut w).unwrap();
        w.buf
    }),
    ("CanonicalSerialize Encoding (31-byte writes)", |e| {
        let mut w = ShortWriter::new(31);
        e.vartime_compress().serialize_compressed(&mut w).unwrap();
        w.buf
    }),
    ("CanonicalSerialize (E, E) first item (5-byte writes)", |e| {
        let mut w = ShortWriter::new(5);
        (e, Element::GENERATOR).serialize_compressed(&mut w).unwrap();
        w.buf[..32.min(w.buf.len())].to_vec()
    }),
    ("Debug E", |e| hex_of_fmt(&format!("{:?}", e))),
    ("Display E", |e| hex_of_fmt(&format!("{}", e))),
    ("Debug A", |e| hex_of_fmt(&format!("{:?}", aff(e)))),
    ("Display A", |e| hex_of_fmt(&format!("{}", aff(e)))),
    ("Debug Encoding", |e| {
        hex_of_fmt(&format!("{:?}", e.vartime_compress()))
    }),
];
#[cfg(not(feature = "ark"))]
pub const ENC_FORMS: &[(&str, EncF)] = &[
    ("vartime_compress", |e| e.vartime_compress().0.to_vec()),
    ("Encoding::from(&E)", |e| Encoding::from(&e).0.to_vec()),
    ("Encoding::from(E)", |e| Encoding::from(e).0.to_vec()),
    ("<[u8;32]>::from(E)", |e| <[u8; 32]>::from(e).to_vec()),
    ("<[u8;32]>::from(Encoding)", |e| {
        <[u8; 32]>::from(e.vartime_compress()).to_vec()
    }),
];

#[cfg(feature = "ark")]
pub const ENCF_FORMS: &[(&str, fn(Element) -> Fq)] = &[
    ("vartime_compress_to_field", |e| e.vartime_compress_to_field()),
    ("ToConstraintField", |e| {
        use ark_ff::ToConstraintField;
        let v = e.to_field_elements().unwrap();
        assert_eq!(v.len(), 1);
        v[0]
    }),
];
#[cfg(not(feature = "ark"))]
pub const ENCF_FORMS: &[(&str, fn(Element) -> Fq)] =
    &[("vartime_compress_to_field", |e| e.vartime_compress_to_field())];

fn arr32(b: &[u8]) -> [u8; 32] {
    let mut a = [0u8; 32];
    a.copy_from_slice(&b[..32]);
    a
}
/// entry points that take exactly 32 bytes
#[cfg(feature = "ark")]
pub const DEC32_FORMS: &[(&str, DecF)] = &[
    ("vartime_decompress", |b| {
        Encoding(arr32(b)).vartime_decompress().map_err(err_name)
    }),
    ("decompress", |b| {
        #[allow(deprecated)]
        Encoding(arr32(b)).decompress().map_err(err_name)
    }),
    ("TryFrom<[u8;32]> E", |b| {
        Element::try_from(arr32(b)).map_err(err_name)
    }),
    ("TryFrom<Encoding> E", |b| {
        Element::try_from(Encoding(arr32(b))).map_err(err_name)
    }),
    ("TryFrom<&Encoding> E", |b| {
        Element::try_from(&Encoding(arr32(b))).map_err(err_name)
    }),
    ("Encoding::from([u8;32])", |b| {
        Encoding::from(arr32(b)).vartime_decompress().map_err(err_name)
    }),
    ("CanonicalDeserialize E", |b| {
        Element::deserialize_compressed(b).map_err(|_| "InvalidEncoding".to_string())
    }),
    ("CanonicalDeserialize A", |b| {
        AffinePoint::deserialize_compressed(b)
            .map(el)
            .map_err(|_| "InvalidEncoding".to_string())
    }),
    ("CanonicalDeserialize Encoding", |b| {
        Encoding::deserialize_compressed(b)
            .map_err(|_| "InvalidEncoding".to_string())
            .and_then(|e| e.vartime_decompress().map_err(err_name))
    }),
    // the same stream entry points fed by a reader that returns short reads (1 and 7 bytes at a time)
    ("CanonicalDeserialize E (1-byte reads)", |b| {
        Element::deserialize_compressed(Chunked::new(b, 1)).map_err(|_| "InvalidEncoding".to_string())
    }),
    ("CanonicalDeserialize A (7-byte reads)", |b| {
        AffinePoint::deserialize_compressed(Chunked::new(b, 7))
            .map(el)
            .map_err(|_| "InvalidEncoding".to_string())
    }),
    ("CanonicalDeserialize Encoding (1-byte reads)", |b| {
        Encoding::deserialize_compressed(Chunked::new(b, 1))
            .map_err(|_| "InvalidEncoding".to_string())
            .and_then(|e| e.vartime_decompress().map_err(err_name))
    }),
    ("CanonicalDeserialize (E, E) second item (5-byte reads)", |b| {
        // two items from one fragmented stream: the first is the generator's encoding, the second the input
        let mut buf = Element::GENERATOR.vartime_compress().0.to_vec();
        buf.extend_from_slice(b);
        <(Element, Element)>::deserialize_compressed(Chunked::new(&buf, 5))
            .map(|t| t.1)
            .map_err(|_| "InvalidEncoding".to_string())
    }),
];
#[cfg(not(feature = "ark"))]
pub const DEC32_FORMS: &[(&str, DecF)] = &[
    ("vartime_decompress", |b| {
        Encoding(arr32(b)).vartime_decompress().map_err(err_name)
    }),
    ("TryFrom<[u8;32]> E", |b| {
        Element::try_from(arr32(b)).map_err(err_name)
    }),
    ("TryFrom<Encoding> E", |b| {
        Element::try_from(Encoding(arr32(b))).map_err(err_name)
    }),
    ("TryFrom<&Encoding> E", |b| {
        Element::try_from(&Encoding(arr32(b))).map_err(err_name)
    }),
    ("Encoding::from([u8;32])", |b| {
        Encoding::from(arr32(b)).vartime_decompress().map_err(err_name)
    }),
];
/// entry points that take a slice of any length
pub const DECSLICE_FORMS: &[(&str, DecF)] = &[
    ("TryFrom<&[u8]> E", |b| Element::try_from(b).map_err(err_name)),
    ("TryFrom<&[u8]> Encoding", |b| {
        Encoding::try_from(b)
            .map_err(err_name)
            .and_then(|e| e.vartime_decompress().map_err(err_name))
    }),
    ("TryInto<Element> for &[u8]", |b| {
        let r: Result<Element, _> = b.try_into();
        r.map_err(err_name)
    }),
];

#[cfg(feature = "ark")]
pub const EQ_FORMS: &[(&str, EqF)] = &[
    ("E==E", |a, b| a == b),
    ("!(E!=E)", |a, b| !(a != b)),
    ("A==A", |a, b| aff(a) == aff(b)),
    ("E==E.into_affine().into()", |a, b| a == el(aff(b))),
];
#[cfg(not(feature = "ark"))]
pub const EQ_FORMS: &[(&str, EqF)] = &[("E==E", |a, b| a == b), ("!(E!=E)", |a, b| !(a != b))];

#[cfg(feature = "ark")]
pub const ID_FORMS: &[(&str, IdF)] = &[
    ("is_identity", |a| a.is_identity()),
    ("is_zero", |a| a.is_zero()),
    ("==IDENTITY", |a| a == Element::IDENTITY),
    ("==default()", |a| a == Element::default()),
    ("==zero()", |a| a == Element::zero()),
    ("A.is_zero", |a| AffineRepr::is_zero(&aff(a))),
    ("A==A::zero()", |a| aff(a) == <AffinePoint as AffineRepr>::zero()),
    ("A==A::default()", |a| aff(a) == AffinePoint::default()),
    ("IDENTITY==E", |a| Element::IDENTITY == a),
    ("default()==E", |a| Element::default() == a),
    ("zero()==E", |a| Element::zero() == a),
    ("A::zero()==A", |a| <AffinePoint as AffineRepr>::zero() == aff(a)),
    ("A::default()==A", |a| AffinePoint::default() == aff(a)),
];
#[cfg(not(feature = "ark"))]
pub const ID_FORMS: &[(&str, IdF)] = &[
    ("is_identity", |a| a.is_identity()),
    ("==IDENTITY", |a| a == Element::IDENTITY),
    ("IDENTITY==E", |a| Element::IDENTITY == a),
];

/// operators that RETURN an affine point, observed directly (no conversion through Element in between);
/// the first ten are binary (+ / -), the rest use only their first operand: "conv" returns the same element,
/// "neg" its negative, "zero" the identity
#[cfg(feature = "ark")]
pub const APROD_FORMS: &[(&str, &str, fn(AffinePoint, AffinePoint) -> AffinePoint)] = &[
    ("add", "&A+&A", |a, b| &a + &b),
    ("add", "&A+A", |a, b| &a + b),
    ("add", "A+=&A", |mut a, b| {
        a += &b;
        a
    }),
    ("add", "A+=A", |mut a, b| {
        a += b;
        a
    }),
    ("sub", "&A-&A", |a, b| &a - &b),
    ("sub", "A-&A", |a, b| a - &b),
    ("sub", "&A-A", |a, b| &a - b),
    ("sub", "A-A", |a, b| a - b),
    ("sub", "A-=&A", |mut a, b| {
        a -= &b;
        a
    }),
    ("sub", "A-=A", |mut a, b| {
        a -= b;
        a
    }),
    ("conv", "el(A).into_affine()", |a, _| el(a).into_affine()),
    ("conv", "A::from(&el(A))", |a, _| AffinePoint::from(&el(a))),
    ("conv", "normalize_batch([E,E])[1]", |a, _| Element::normalize_batch(&[Element::GENERATOR, el(a)])[1]),
    ("conv", "(&A + &A::zero())", |a, _| &a + &<AffinePoint as AffineRepr>::zero()),
    ("conv", "&A*&Fr::ONE", |a, _| &a * &Fr::from(1u64)),
    ("conv", "Fr::ONE*&A", |a, _| Fr::from(1u64) * &a),
    ("neg", "-A", |a, _| -a),
    ("neg", "&A*&(-Fr::ONE)", |a, _| &a * &(-Fr::from(1u64))),
    ("neg", "(&A::zero() - &A)", |a, _| &<AffinePoint as AffineRepr>::zero() - &a),
    ("zero", "&A*&Fr::ZERO", |a, _| &a * &Fr::from(0u64)),
    ("zero", "Fr::ZERO*A", |a, _| Fr::from(0u64) * a),
    ("zero", "(&A - &A)", |a, _| &a - &a),
    ("zero", "A*=Fr::ZERO", |mut a, _| {
        a *= Fr::from(0u64);
        a
    }),
];
#[cfg(feature = "ark")]
pub const APRED_FORMS: &[(&str, fn(AffinePoint) -> bool)] = &[
    ("A.is_zero", |p| AffineRepr::is_zero(&p)),
    ("A==A::zero()", |p| p == <AffinePoint as AffineRepr>::zero()),
    ("A::zero()==A", |p| <AffinePoint as AffineRepr>::zero() == p),
    ("A==A::default()", |p| p == AffinePoint::default()),
    ("Element::from(A).is_identity", |p| el(p).is_identity()),
    ("A.into_group().is_zero", |p| p.into_group().is_zero()),
    ("hash(A)==hash(A::zero())", |p| {
        use std::hash::{Hash, Hasher};
        let mut h1 = std::collections::hash_map::DefaultHasher::new();
        p.hash(&mut h1);
        let mut h2 = std::collections::hash_map::DefaultHasher::new();
        <AffinePoint as AffineRepr>::zero().hash(&mut h2);
        h1.finish() == h2.finish()
    }),
];
#[cfg(feature = "ark")]
pub const HASH_FORMS: &[(&str, fn(Element) -> u64)] = &[
    ("Element", |a| {
        use std::hash::{Hash, Hasher};
        let mut h = std::collections::hash_map::DefaultHasher::new();
        a.hash(&mut h);
        h.finish()
    }),
    ("AffinePoint", |a| {
        use std::hash::{Hash, Hasher};
        let mut h = std::collections::hash_map::DefaultHasher::new();
        aff(a).hash(&mut h);
        h.finish()
    }),
    // containers hash through Hash::hash_slice, which a type may override: n copies of the element
    ("Vec<Element> x1", |a| hash_of(&vec![a; 1])),
    ("Vec<Element> x15", |a| hash_of(&vec![a; 15])),
    ("Vec<Element> x16", |a| hash_of(&vec![a; 16])),
    ("Vec<Element> x17", |a| hash_of(&vec![a; 17])),
    ("Vec<Element> x300", |a| hash_of(&vec![a; 300])),
    ("[Element; 32]", |a| hash_of(&[a; 32])),
    ("Vec<AffinePoint> x16", |a| hash_of(&vec![aff(a); 16])),
    ("Vec<AffinePoint> x300", |a| hash_of(&vec![aff(a); 300])),
    ("(Element, AffinePoint)", |a| hash_of(&(a, aff(a)))),
];
#[cfg(feature = "ark")]
fn hash_of<T: std::hash::Hash>(x: &T) -> u64 {
    use std::hash::Hasher;
    let mut h = std::collections::hash_map::DefaultHasher::new();
    x.hash(&mut h);
    h.finish()
}
#[cfg(not(feature = "ark"))]
pub const HASH_FORMS: &[(&str, fn(Element) -> u64)] = &[];

#[cfg(feature = "ark")]
pub const CONST_FORMS: &[(&str, fn() -> Element)] = &[
    ("IDENTITY", || Element::IDENTITY),
    ("GENERATOR", || Element::GENERATOR),
    ("default", Element::default),
    ("zero", Element::zero),
    ("generator", <Element as Group>::generator),
    ("affine_zero", || el(<AffinePoint as AffineRepr>::zero())),
    ("affine_generator", || el(<AffinePoint as AffineRepr>::generator())),
    ("affine_default", || el(AffinePoint::default())),
];
#[cfg(not(feature = "ark"))]
pub const CONST_FORMS: &[(&str, fn() -> Element)] = &[
    ("IDENTITY", || Element::IDENTITY),
    ("GENERATOR", || Element::GENERATOR),
];

/// conversions that must preserve the element
#[cfg(feature = "ark")]
pub const CONV_FORMS: &[(&str, UnF)] = &[
    ("into_affine().into()", |a| el(a.into_affine())),
    ("AffinePoint::from(&E)", |a| Element::from(&AffinePoint::from(&a))),
    ("into_group", |a| aff(a).into_group()),
    ("normalize_batch", |a| el(Element::normalize_batch(&[a, Element::GENERATOR])[0])),
    ("batch_convert_to_mul_base", |a| {
        use ark_ec::ScalarMul;
        el(Element::batch_convert_to_mul_base(&[Element::GENERATOR, a])[1])
    }),
    ("clear_cofactor", |a| el(aff(a).clear_cofactor())),
    ("mul_by_cofactor_to_group", |a| aff(a).mul_by_cofactor_to_group()),
    ("mul_by_cofactor", |a| el(aff(a).mul_by_cofactor())),
    ("mul_by_cofactor_inv", |a| el(aff(a).mul_by_cofactor_inv())),
    ("clone", |a| a.clone()),
    ("serialize+deserialize", |a| {
        let mut v = Vec::new();
        a.serialize_compressed(&mut v).unwrap();
        Element::deserialize_compressed(&v[..]).unwrap()
    }),
    ("conditional_select-free copy", |a| {
        let b = a;
        b
    }),
];
#[cfg(not(feature = "ark"))]
pub const CONV_FORMS: &[(&str, UnF)] = &[
    ("clone", |a| a.clone()),
    ("conditional_select(a,b,0)", |a| {
        use subtle::ConditionallySelectable;
        Element::conditional_select(&a, &Element::GENERATOR, 0u8.into())
    }),
    ("conditional_select(b,a,1)", |a| {
        use subtle::ConditionallySelectable;
        Element::conditional_select(&Element::GENERATOR, &a, 1u8.into())
    }),
];

// ------------------------------------------------------------------ scalars
pub fn scalar_alphabet() -> Vec<Vec<u8>> {
    let r = R_LE.to_vec();
    let mut v: Vec<Vec<u8>> = vec![
        vec![0],
        vec![1],
        vec![2],
        le_sub_small(&r, 1),
        le_shr1(&le_sub_small(&r, 1)),
        le_shr1(&le_add_small(&r, 1)),
        vec![0xff; 8],
        vec![0xff; 16],
        vec![0xff; 24],
    ];
    for k in [1usize, 31, 32, 63, 64, 65, 127, 128, 191, 192, 249, 250] {
        v.push(le_pow2(k, 32));
        v.push(le_sub_small(&le_pow2(k, 32), 1));
    }
    // word patterns (what digit recodings -- NAF, windows, k + 2k -- are sensitive to): one 64-bit limb equal to
    // 0x5555.., 0xAAAA.., 0x8000..0, 0x7FFF..F, the limb below it with its top bit clear and set, fixed filler
    // elsewhere, top byte small so that the value stays below r
    let filler: [u8; 32] = [0x3b, 0xe1, 0x07, 0x9c, 0x52, 0xd4, 0x6a, 0x11, 0xc8, 0x2f, 0x95, 0x70, 0x0d, 0xb6, 0x43, 0xea,
                            0x19, 0x84, 0xf2, 0x5d, 0xa7, 0x30, 0xcb, 0x66, 0x08, 0xd9, 0x71, 0xbe, 0x24, 0x9a, 0x4f, 0x02];
    for limb in 0..4usize {
        for pat in [[0x55u8; 8], [0xaa; 8], [0, 0, 0, 0, 0, 0, 0, 0x80], [0xff, 0xff, 0xff, 0xff, 0xff, 0xff, 0xff, 0x7f]] {
            for below_top in [0x00u8, 0x80] {
                let mut x = filler.to_vec();
                x[8 * limb..8 * limb + 8].copy_from_slice(&pat);
                if limb > 0 {
                    x[8 * limb - 1] = (x[8 * limb - 1] & 0x7f) | below_top;
                }
                x[31] &= 0x03;
                v.push(x);
            }
        }
    }
    v
}
/// integers that need not be below r (for the integer-argument forms)
pub fn bigint_alphabet() -> Vec<Vec<u8>> {
    let r = R_LE.to_vec();
    let mut v = scalar_alphabet();
    v.push(r.clone());
    v.push(le_add_small(&r, 1));
    v.push(le_sub_small(&le_add(&r, &r), 1));
    v.push(le_add(&r, &r));
    v.push(vec![0xff; 32]);
    v.push(le_pow2(255, 32));
    let mut five = r.clone();
    five.extend_from_slice(&[1, 0, 0, 0, 0, 0, 0, 0]);
    v.push(five); // r + 2^256: five limbs
    v.push(vec![]);
    // integers of 6 .. 17 limbs: 2^(64 j) + 5, all-ones, r * 2^(64 j) (a multiple of the order), 2r * 2^512 + 3
    for j in [5usize, 7, 8, 9, 12, 16] {
        let mut x = vec![0u8; 8 * j];
        x[0] = 5;
        x.extend_from_slice(&[1, 0, 0, 0, 0, 0, 0, 0]);
        v.push(x);
        let mut y = vec![0u8; 8 * j];
        y.extend_from_slice(&r);
        v.push(y);
    }
    // integers on which a double-and-add ladder meets equal / opposite / identity operands.  MSB-first: a prefix p
    // with 2p = +-1 or 0 (mod r) followed by a set bit, i.e. k = (r + 2) 2^j + low, r 2^j + low, (2r + 1) 2^j + low.
    // LSB-first: k mod 2^i = 2^i, -2^i or 0 (mod r) with bit i set (possible from i = 250 on), e.g. 2^i + (2^i mod r).
    for j in [0usize, 1, 64, 70] {
        for base in [le_add_small(&r, 2), le_add_small(&le_add(&r, &r), 1), le_add_small(&le_add(&le_add(&r, &r), &r), 2), r.clone()] {
            let mut x = vec![0u8; j / 8];
            let mut b = base.clone();
            // shift left by j % 8 bits
            let sh = j % 8;
            if sh > 0 {
                let mut carry = 0u16;
                for y in b.iter_mut() {
                    let t = ((*y as u16) << sh) | carry;
                    *y = (t & 0xff) as u8;
                    carry = t >> 8;
                }
                b.push(carry as u8);
            }
            x.extend_from_slice(&b);
            if j > 0 {
                x[0] |= 1; // some low bits
            }
            v.push(x);
        }
    }
    for i in 250..=258usize {
        // 2^i mod r by repeated doubling in the scalar field
        let mut t = Fr::from(1u64);
        for _ in 0..i {
            t = t + t;
        }
        let p2 = le_pow2(i, 40);
        let tm = t.to_bytes_le().to_vec();
        let mut x = le_add(&p2, &tm);           // 2^i + (2^i mod r)
        x.truncate(40);
        v.push(x);
        let mut y = le_add(&p2, &(-t).to_bytes_le().to_vec()); // 2^i + (-2^i mod r)
        y.truncate(40);
        v.push(y);
    }
    v.push(vec![0xff; 64]);
    v.push(vec![0xff; 72]);
    v.push(vec![0xff; 136]);
    let mut z = vec![0u8; 64];
    z[0] = 3;
    z.extend_from_slice(&le_add(&r, &r));
    v.push(z);
    v
}
pub fn small_scalar(r: &mut ChaCha20Rng) -> Vec<u8> {
    let n = 1 + below(r, 2);
    rbytes(r, n)
}
pub fn rand_scalar(r: &mut ChaCha20Rng) -> Vec<u8> {
    match below(r, 10) {
        0..=3 => {
            let n = 1 + below(r, 2);
            rbytes(r, n)
        }
        4..=5 => {
            let a = scalar_alphabet();
            a[below(r, a.len())].clone()
        }
        6 => {
            // in [2^250, r): the top bit of the scalar field's bit size is used
            let mut b = rbytes(r, 32);
            b[31] = 0x04;
            b[30] &= 0x7f;
            b
        }
        _ => {
            let mut b = rbytes(r, 32);
            b[31] &= 0x03; // < 2^250 < r
            b
        }
    }
}

// ------------------------------------------------------------------ the machine
pub struct Machine<'a> {
    pub regs: [Element; NREG],
    pub out: &'a mut dyn Write,
    pub ctr: usize,
}

impl<'a> Machine<'a> {
    pub fn new(out: &'a mut dyn Write) -> Self {
        Machine {
            regs: [Element::IDENTITY; NREG],
            out,
            ctr: 0,
        }
    }
    fn rot(&mut self, n: usize) -> usize {
        self.ctr += 1;
        self.ctr % n
    }
    pub fn reset(&mut self) {
        self.regs = [Element::IDENTITY; NREG];
        emit(self.out, json!({"k":"reset","build":BUILD}));
    }
    fn put(&mut self, ev: Value, dst: usize, res: Result<Element, String>) {
        let mut ev = ev;
        ev["dst"] = json!(dst);
        match res {
            Ok(e) => {
                self.regs[dst] = e;
                ev["rep"] = rep(&e);
            }
            Err(m) => ev["panic"] = json!(m),
        }
        emit(self.out, ev);
    }
    pub fn konst(&mut self, idx: usize, dst: usize) {
        let (name, f) = CONST_FORMS[idx % CONST_FORMS.len()];
        let r = guarded(f);
        self.put(json!({"k":"const","name":name}), dst, r);
    }
    pub fn decode(&mut self, entry_idx: usize, b: &[u8], dst: usize) {
        let (name, f): (&str, DecF) = if b.len() == 32 {
            let n = DEC32_FORMS.len() + DECSLICE_FORMS.len();
            let i = entry_idx % n;
            if i < DEC32_FORMS.len() {
                DEC32_FORMS[i]
            } else {
                DECSLICE_FORMS[i - DEC32_FORMS.len()]
            }
        } else {
            DECSLICE_FORMS[entry_idx % DECSLICE_FORMS.len()]
        };
        let mut ev = json!({"k":"dec","entry":name,"b":b,"dst":dst});
        match guarded(|| f(b)) {
            Ok(Ok(e)) => {
                self.regs[dst] = e;
                ev["ok"] = json!(true);
                ev["err"] = json!("");
                ev["rep"] = rep(&e);
            }
            Ok(Err(err)) => {
                ev["ok"] = json!(false);
                ev["err"] = json!(err);
            }
            Err(m) => ev["panic"] = json!(m),
        }
        emit(self.out, ev);
    }
    pub fn ell(&mut self, r0: &Fq, dst: usize) {
        let r = guarded(|| Element::encode_to_curve(r0));
        self.put(json!({"k":"ell","r0":fq_bytes(r0)}), dst, r);
    }
    pub fn h2c(&mut self, r1: &Fq, r2: &Fq, dst: usize) {
        let r = guarded(|| Element::hash_to_curve(r1, r2));
        self.put(json!({"k":"h2c","r1":fq_bytes(r1),"r2":fq_bytes(r2)}), dst, r);
    }
    pub fn bin(&mut self, idx: usize, a: usize, b: usize, dst: usize) {
        let (op, form, f) = BIN_FORMS[idx % BIN_FORMS.len()];
        let (x, y) = (self.regs[a], self.regs[b]);
        let r = guarded(|| f(x, y));
        self.put(json!({"k":"bin","op":op,"form":form,"a":a,"b":b}), dst, r);
    }
    pub fn neg(&mut self, idx: usize, a: usize, dst: usize) {
        let (form, f) = NEG_FORMS[idx % NEG_FORMS.len()];
        let x = self.regs[a];
        let r = guarded(|| f(x));
        self.put(json!({"k":"neg","form":form,"a":a}), dst, r);
    }
    /// a binary operator with the SAME object as both operands (logged as a `bin` event with b = a)
    pub fn alias(&mut self, idx: usize, a: usize, dst: usize) {
        let (op, form, f) = ALIAS_FORMS[idx % ALIAS_FORMS.len()];
        let x = self.regs[a];
        let r = guarded(|| f(x));
        self.put(json!({"k":"bin","op":op,"form":form,"a":a,"b":a}), dst, r);
    }
    pub fn dbl(&mut self, idx: usize, a: usize, dst: usize) {
        let (form, f) = DBL_FORMS[idx % DBL_FORMS.len()];
        let x = self.regs[a];
        let r = guarded(|| f(x));
        self.put(json!({"k":"dbl","form":form,"a":a}), dst, r);
    }
    pub fn conv(&mut self, idx: usize, a: usize, dst: usize) {
        let (form, f) = CONV_FORMS[idx % CONV_FORMS.len()];
        let x = self.regs[a];
        let r = guarded(|| f(x));
        self.put(json!({"k":"conv","name":form,"a":a}), dst, r);
    }
    pub fn sum(&mut self, idx: usize, srcs: &[usize], dst: usize) {
        if SUM_FORMS.is_empty() {
            return;
        }
        let (form, f) = SUM_FORMS[idx % SUM_FORMS.len()];
        let v: Vec<Element> = srcs.iter().map(|i| self.regs[*i]).collect();
        let r = guarded(|| f(&v));
        self.put(json!({"k":"sum","form":form,"srcs":srcs}), dst, r);
    }
    /// scalar-field forms: k is reduced into Fr first and the canonical value is logged
    pub fn mul(&mut self, idx: usize, kbytes: &[u8], a: usize, dst: usize) {
        let (form, f) = MUL_FORMS[idx % MUL_FORMS.len()];
        let k = fr_from(kbytes);
        let x = self.regs[a];
        let r = guarded(|| f(x, k));
        self.put(
            json!({"k":"mul","form":form,"kb":k.to_bytes_le().to_vec(),"a":a}),
            dst,
            r,
        );
    }
    /// integer forms: k is any integer, given as u64 limbs
    pub fn mulbig(&mut self, idx: usize, kbytes: &[u8], a: usize, dst: usize) {
        let (form, f) = MULBIG_FORMS[idx % MULBIG_FORMS.len()];
        let limbs = bytes_to_limbs(kbytes);
        let x = self.regs[a];
        let r = guarded(|| f(x, &limbs));
        self.put(
            json!({"k":"mul","form":form,"kb":limbs_to_bytes(&limbs),"a":a}),
            dst,
            r,
        );
    }
    pub fn msm(&mut self, idx: usize, ks: &[Vec<u8>], srcs: &[usize], dst: usize) {
        if MSM_FORMS.is_empty() {
            return;
        }
        let (form, f) = MSM_FORMS[idx % MSM_FORMS.len()];
        let k: Vec<Fr> = ks.iter().map(|b| fr_from(b)).collect();
        let p: Vec<Element> = srcs.iter().map(|i| self.regs[*i]).collect();
        let kb: Vec<Vec<u8>> = k.iter().map(|x| x.to_bytes_le().to_vec()).collect();
        let r = guarded(|| f(&k, &p));
        self.put(json!({"k":"msm","form":form,"ks":kb,"srcs":srcs}), dst, r);
    }
    pub fn enc(&mut self, idx: usize, a: usize) -> Vec<u8> {
        let (form, f) = ENC_FORMS[idx % ENC_FORMS.len()];
        let x = self.regs[a];
        let r = guarded(|| f(x));
        let ev = json!({"k":"enc","form":form,"a":a});
        let bytes = r.clone().unwrap_or_default();
        emit(self.out, finish(ev, r.map(|b| json!({"out":b}))));
        bytes
    }
    pub fn encf(&mut self, idx: usize, a: usize) {
        let (form, f) = ENCF_FORMS[idx % ENCF_FORMS.len()];
        let x = self.regs[a];
        let r = guarded(|| f(x));
        let ev = json!({"k":"encf","form":form,"a":a});
        emit(self.out, finish(ev, r.map(|s| json!({"out":fq_bytes(&s)}))));
    }
    pub fn eq(&mut self, idx: usize, a: usize, b: usize) {
        let (form, f) = EQ_FORMS[idx % EQ_FORMS.len()];
        let (x, y) = (self.regs[a], self.regs[b]);
        let r = guarded(|| f(x, y));
        let ev = json!({"k":"eq","form":form,"a":a,"b":b});
        emit(self.out, finish(ev, r.map(|o| json!({"out":o}))));
    }
    /// every predicate (and the compressed serialisation) on the affine point returned by one affine operator
    #[cfg(feature = "ark")]
    pub fn aobs(&mut self, idx: usize, a: usize, b: usize) {
        let (op, form, f) = APROD_FORMS[idx % APROD_FORMS.len()];
        let (x, y) = (aff(self.regs[a]), aff(self.regs[b]));
        for (pred, g) in APRED_FORMS.iter() {
            let r = guarded(|| g(f(x, y)));
            let ev = json!({"k":"aobs","op":op,"form":form,"pred":pred,"a":a,"b":b});
            emit(self.out, finish(ev, r.map(|o| json!({"out":o}))));
        }
        let r = guarded(|| {
            let mut v = Vec::new();
            f(x, y).serialize_compressed(&mut v).unwrap();
            v
        });
        let ev = json!({"k":"aenc","op":op,"form":form,"a":a,"b":b});
        emit(self.out, finish(ev, r.map(|o| json!({"out":o}))));
    }
    #[cfg(not(feature = "ark"))]
    pub fn aobs(&mut self, _idx: usize, _a: usize, _b: usize) {}
    pub fn isid(&mut self, idx: usize, a: usize) {
        let (form, f) = ID_FORMS[idx % ID_FORMS.len()];
        let x = self.regs[a];
        let r = guarded(|| f(x));
        let ev = json!({"k":"isid","pred":form,"a":a});
        emit(self.out, finish(ev, r.map(|o| json!({"out":o}))));
    }
    pub fn hash(&mut self, idx: usize, a: usize) {
        if HASH_FORMS.is_empty() {
            return;
        }
        let (ty, f) = HASH_FORMS[idx % HASH_FORMS.len()];
        let x = self.regs[a];
        let r = guarded(|| f(x));
        let ev = json!({"k":"hash","ty":ty,"a":a});
        emit(
            self.out,
            finish(ev, r.map(|h| json!({"h":h.to_le_bytes().to_vec()}))),
        );
    }
    /// C01, direction 1: compress a register, decompress through an entry point, compare
    pub fn rt(&mut self, fidx: usize, eidx: usize, a: usize, dst: usize) {
        let (form, f) = ENC_FORMS[fidx % ENC_FORMS.len()];
        let n = DEC32_FORMS.len() + DECSLICE_FORMS.len();
        let i = eidx % n;
        let (entry, d): (&str, DecF) = if i < DEC32_FORMS.len() { DEC32_FORMS[i] } else { DECSLICE_FORMS[i - DEC32_FORMS.len()] };
        let x = self.regs[a];
        let mut ev = json!({"k":"rt","form":form,"entry":entry,"a":a,"dst":dst});
        let r = guarded(|| {
            let bytes = f(x);
            let dec = if bytes.len() == 32 { d(&bytes) } else { Err("length".to_string()) };
            (bytes, dec)
        });
        match r {
            Ok((bytes, Ok(e))) => {
                ev["bytes"] = json!(bytes);
                ev["ok"] = json!(true);
                ev["eq"] = json!(guarded(|| e == x).unwrap_or(false));
                ev["rep"] = rep(&e);
                self.regs[dst] = e;
            }
            Ok((bytes, Err(_))) => {
                ev["bytes"] = json!(bytes);
                ev["ok"] = json!(false);
                ev["eq"] = json!(false);
            }
            Err(m) => ev["panic"] = json!(m),
        }
        emit(self.out, ev);
    }
    /// C01, direction 2: decompress arbitrary bytes; if accepted, compress again
    pub fn rt2(&mut self, eidx: usize, fidx: usize, b: &[u8], dst: usize) {
        let (form, f) = ENC_FORMS[fidx % ENC_FORMS.len()];
        let n = DEC32_FORMS.len() + DECSLICE_FORMS.len();
        let i = eidx % n;
        let (entry, d): (&str, DecF) = if i < DEC32_FORMS.len() { DEC32_FORMS[i] } else { DECSLICE_FORMS[i - DEC32_FORMS.len()] };
        let mut ev = json!({"k":"rt2","form":form,"entry":entry,"b":b,"dst":dst});
        match guarded(|| d(b).map(|e| (e, f(e)))) {
            Ok(Ok((e, bytes))) => {
                ev["ok"] = json!(true);
                ev["bytes"] = json!(bytes);
                ev["rep"] = rep(&e);
                self.regs[dst] = e;
            }
            Ok(Err(_)) => {
                ev["ok"] = json!(false);
                ev["bytes"] = json!(Vec::<u8>::new());
            }
            Err(m) => ev["panic"] = json!(m),
        }
        emit(self.out, ev);
    }
    /// same point, projective coordinates scaled by lam (hook)
    pub fn rescale(&mut self, lam: &Fq, a: usize, dst: usize) {
        if *lam == Fq::ZERO {
            return;
        }
        let c = self.regs[a].verif_raw();
        let e = Element::verif_from_raw([c[0] * lam, c[1] * lam, c[2] * lam, c[3] * lam]);
        self.regs[dst] = e;
        emit(
            self.out,
            json!({"k":"rescale","a":a,"dst":dst,"lam":fq_bytes(lam),"rep":rep(&e)}),
        );
    }
    /// the other representative of the same element: (X,Y,Z,T) -> (-X,-Y,Z,T) (hook)
    pub fn torque(&mut self, a: usize, dst: usize) {
        let c = self.regs[a].verif_raw();
        let e = Element::verif_from_raw([-c[0], -c[1], c[2], c[3]]);
        self.regs[dst] = e;
        emit(self.out, json!({"k":"torque","a":a,"dst":dst,"rep":rep(&e)}));
    }
}

fn rand_fq(r: &mut ChaCha20Rng) -> Fq {
    match below(r, 8) {
        0 => Fq::from(below(r, 20) as u64),
        1 => -Fq::from(below(r, 20) as u64),
        _ => fq_from(&rbytes(r, 48)),
    }
}

/// One random straight-line program mixing all call forms.
pub fn program(m: &mut Machine, r: &mut ChaCha20Rng, len: usize, heavy_mul: bool) {
    m.reset();
    // a prologue that makes the interesting representatives available
    let c = m.rot(CONST_FORMS.len());
    m.konst(c, 0);
    m.konst(1, 1); // GENERATOR
    let x = rand_fq(r);
    m.ell(&x, 2);
    m.torque(below(r, 3), 3);
    for _ in 0..len {
        let a = below(r, NREG);
        let b = if below(r, 6) == 0 { a } else { below(r, NREG) };
        let dst = below(r, NREG);
        let w = below(r, 100);
        match w {
            0..=27 => {
                let i = m.rot(BIN_FORMS.len());
                m.bin(i, a, b, dst)
            }
            28..=32 => {
                let i = m.rot(NEG_FORMS.len());
                m.neg(i, a, dst)
            }
            33..=36 => {
                let i = m.rot(DBL_FORMS.len());
                m.dbl(i, a, dst)
            }
            37..=39 => {
                let n = below(r, 5);
                let srcs: Vec<usize> = (0..n).map(|_| below(r, NREG)).collect();
                let i = m.rot(SUM_FORMS.len().max(1));
                m.sum(i, &srcs, dst)
            }
            40..=46 => {
                let k = if heavy_mul { rand_scalar(r) } else { small_scalar(r) };
                let i = m.rot(MUL_FORMS.len());
                m.mul(i, &k, a, dst)
            }
            47..=48 => {
                let k = if heavy_mul {
                    let al = bigint_alphabet();
                    al[below(r, al.len())].clone()
                } else {
                    small_scalar(r)
                };
                let i = m.rot(MULBIG_FORMS.len());
                m.mulbig(i, &k, a, dst)
            }
            49 => {
                let n = below(r, 4);
                let srcs: Vec<usize> = (0..n).map(|_| below(r, NREG)).collect();
                let ks: Vec<Vec<u8>> = (0..n).map(|_| small_scalar(r)).collect();
                let i = m.rot(MSM_FORMS.len().max(1));
                m.msm(i, &ks, &srcs, dst)
            }
            50..=59 => {
                let i = m.rot(ENC_FORMS.len());
                m.enc(i, a);
            }
            60..=62 => {
                let i = m.rot(ENCF_FORMS.len());
                m.encf(i, a)
            }
            63..=70 => {
                let i = m.rot(EQ_FORMS.len());
                m.eq(i, a, b)
            }
            71..=75 => {
                let i = m.rot(ID_FORMS.len());
                m.isid(i, a)
            }
            76..=80 => {
                let i = m.rot(HASH_FORMS.len().max(1));
                m.hash(i, a)
            }
            81..=86 => {
                let i = m.rot(ENC_FORMS.len());
                let j = m.rot(DEC32_FORMS.len() + DECSLICE_FORMS.len());
                m.rt(i, j, a, dst);
            }
            87..=89 => {
                let x = rand_fq(r);
                m.ell(&x, dst)
            }
            90 => {
                let x = rand_fq(r);
                let y = rand_fq(r);
                m.h2c(&x, &y, dst)
            }
            91..=93 => {
                let i = m.rot(CONV_FORMS.len());
                m.conv(i, a, dst)
            }
            94..=95 => {
                let lam = rand_fq(r);
                m.rescale(&lam, a, dst)
            }
            96..=97 => m.torque(a, dst),
            _ => {
                let i = m.rot(CONST_FORMS.len());
                m.konst(i, dst)
            }
        }
    }
}

/// the structured element alphabet, loaded into registers 0..13:
/// O, O' = (0,-1), B, B + T2 = (-x,-y), -B = (-x,y), -B + T2 = (x,-y), 2B (Z != 1), an Elligator output E,
/// E + T2, -E + T2, a rescaled B, a small multiple kE of E (Z != 1), kE - kE (the identity with Z != 1) and its
/// other representative
pub fn load_alphabet(m: &mut Machine, r: &mut ChaCha20Rng) {
    m.reset();
    m.konst(0, 0);
    m.torque(0, 1);
    m.konst(1, 2);
    m.torque(2, 3);
    m.neg(0, 2, 4);
    m.torque(4, 5);
    m.bin(0, 2, 2, 6);
    let x = rand_fq(r);
    m.ell(&x, 7);
    m.torque(7, 8);
    m.neg(0, 7, 9);
    m.torque(9, 9);
    let lam = rand_fq(r);
    m.rescale(&(lam + Fq::from(2u64)), 2, 10);
    let k = [3u8 + (below(r, 200) as u8)];
    m.mul(0, &k, 7, 11);
    // the identity reached by arithmetic (Z != 1), and its other representative in another scaling
    let sub = BIN_FORMS.iter().position(|f| f.0 == "sub").unwrap_or(0);
    m.bin(sub, 11, 11, 12);
    m.torque(12, 13);
}

pub fn record(suite: &str, n: usize, seed: u64, arg: &str, out: &mut dyn Write) -> bool {
    let mut r = rng(seed, suite);
    match suite {
        // random straight-line programs (cheap scalars)
        "prog" => {
            let len: usize = arg.parse().unwrap_or(40);
            let mut m = Machine::new(out);
            for _ in 0..n {
                program(&mut m, &mut r, len, false);
            }
        }
        // programs with full-size scalars
        "progmul" => {
            let len: usize = arg.parse().unwrap_or(12);
            let mut m = Machine::new(out);
            for _ in 0..n {
                program(&mut m, &mut r, len, true);
            }
        }
        // every binary form x every ordered pair of the element alphabet, + neg/dbl/sum forms
        "forms" => {
            let mut m = Machine::new(out);
            for f in 0..BIN_FORMS.len() {
                load_alphabet(&mut m, &mut r);
                // destinations rotate over a scratch copy: results go to a register that is
                // reloaded afterwards, so operands stay the alphabet
                for a in 0..NREG {
                    for b in 0..NREG {
                        let save = m.regs;
                        m.bin(f, a, b, (a + 1) % NREG);
                        m.enc(0, (a + 1) % NREG);
                        m.regs = save;
                        let e = m.regs[(a + 1) % NREG];
                        emit(m.out, json!({"k":"restore","dst":(a+1)%NREG,"rep":rep(&e),"force":true}));
                    }
                }
            }
            load_alphabet(&mut m, &mut r);
            for a in 0..NREG {
                for f in 0..ALIAS_FORMS.len() {
                    let save = m.regs;
                    m.alias(f, a, (a + 1) % NREG);
                    m.enc(0, (a + 1) % NREG);
                    m.regs = save;
                    let e = m.regs[(a + 1) % NREG];
                    emit(m.out, json!({"k":"restore","dst":(a+1)%NREG,"rep":rep(&e),"force":true}));
                }
            }
            load_alphabet(&mut m, &mut r);
            for a in 0..NREG {
                for f in 0..NEG_FORMS.len() {
                    let save = m.regs;
                    m.neg(f, a, (a + 1) % NREG);
                    m.enc(0, (a + 1) % NREG);
                    m.regs = save;
                    let e = m.regs[(a + 1) % NREG];
                    emit(m.out, json!({"k":"restore","dst":(a+1)%NREG,"rep":rep(&e),"force":true}));
                }
                for f in 0..DBL_FORMS.len() {
                    let save = m.regs;
                    m.dbl(f, a, (a + 1) % NREG);
                    m.regs = save;
                    let e = m.regs[(a + 1) % NREG];
                    emit(m.out, json!({"k":"restore","dst":(a+1)%NREG,"rep":rep(&e),"force":true}));
                }
                for f in 0..CONV_FORMS.len() {
                    let save = m.regs;
                    m.conv(f, a, (a + 1) % NREG);
                    m.regs = save;
                    let e = m.regs[(a + 1) % NREG];
                    emit(m.out, json!({"k":"restore","dst":(a+1)%NREG,"rep":rep(&e),"force":true}));
                }
            }
            for f in 0..SUM_FORMS.len() {
                let long: Vec<usize> = (0..37).map(|i| (i * 5 + 2) % NREG).collect();
                // lengths around every plausible block size (batch normalisation, chunked accumulation)
                let mk = |n: usize, step: usize| -> Vec<usize> { (0..n).map(|i| (i * step + 2) % NREG).collect() };
                for srcs in [vec![], vec![2], vec![2, 4], vec![1, 2, 3, 4, 5], vec![6, 6, 6], vec![0, 1], long.clone(), mk(64, 7), mk(65, 5),
                             mk(128, 7), mk(129, 5), mk(255, 7), mk(256, 5), mk(257, 7), mk(258, 5), mk(513, 7), mk(600, 5), mk(1030, 7)] {
                    let save = m.regs;
                    m.sum(f, &srcs, 0);
                    m.regs = save;
                    let e = m.regs[0];
                    emit(m.out, json!({"k":"restore","dst":0,"rep":rep(&e),"force":true}));
                }
            }
        }
        // every observation form x every ordered pair / element of the alphabet
        "obs" => {
            let mut m = Machine::new(out);
            for _ in 0..n.max(1) {
                load_alphabet(&mut m, &mut r);
                for a in 0..NREG {
                    for f in 0..ENC_FORMS.len() {
                        m.enc(f, a);
                    }
                    for f in 0..ENCF_FORMS.len() {
                        m.encf(f, a);
                    }
                    for f in 0..ID_FORMS.len() {
                        m.isid(f, a);
                    }
                    for f in 0..HASH_FORMS.len() {
                        m.hash(f, a);
                    }
                    for b in 0..NREG {
                        for f in 0..EQ_FORMS.len() {
                            m.eq(f, a, b);
                        }
                        // affine-typed operators observed directly: one rotating operator per pair, every operator
                        // when the result is the identity
                        let ident = (m.regs[a] + m.regs[b]).is_identity() || (m.regs[a] - m.regs[b]).is_identity();
                        if ident {
                            for f in 0..10 {
                                m.aobs(f, a, b);
                            }
                        } else {
                            let f = m.rot(10);
                            m.aobs(f, a, b);
                        }
                    }
                    // unary producers: conversions, negations, multiples by zero
                    #[cfg(feature = "ark")]
                    for f in 10..APROD_FORMS.len() {
                        m.aobs(f, a, a);
                    }
                }
            }
        }
        // representatives whose internal coordinates carry WORD PATTERNS (set through the rescaling hook): a predicate
        // that folds the limbs of a coordinate (xor / or / add, all limbs or some) is wrong only on such values.  The
        // pattern is installed as the canonical value of X or of Y, and as its Montgomery form (value = pattern / R).
        "coordpat" => {
            let mut m = Machine::new(out);
            let l: u64 = 0x0123_4567_89ab_cdef;
            let (a, b2) = (0x0fed_cba9_8765_4321u64, 0x0011_2233_4455_6677u64);
            let limbs_to_fq = |w: [u64; 4]| -> Fq {
                let mut bytes = Vec::new();
                for x in w {
                    bytes.extend_from_slice(&x.to_le_bytes());
                }
                fq_from(&bytes)
            };
            let pats: Vec<Fq> = vec![
                limbs_to_fq([l, l, l, l]),
                limbs_to_fq([a, b2, a, b2]),
                limbs_to_fq([a, a, b2, b2]),
                limbs_to_fq([a, b2, b2, a]),
                limbs_to_fq([a, 0, 0, a]),
                limbs_to_fq([0, 0, 0, 1]),
                limbs_to_fq([0, 0, 1, 0]),
                limbs_to_fq([0, 0, a, b2]),
                limbs_to_fq([a, b2, 0, 0]),
                limbs_to_fq([0x89ab_cdef_89ab_cdef, 0x89ab_cdef_89ab_cdef, 0x89ab_cdef_89ab_cdef, 0x0123_4567_0123_4567]),
                limbs_to_fq([u64::MAX, u64::MAX, 0, 0]),
                limbs_to_fq([u64::MAX, 0, u64::MAX, 0]),
            ];
            let mut r256 = vec![0u8; 33];
            r256[32] = 1;
            let rinv = fq_from(&r256).inverse().unwrap_or(Fq::ONE);
            for it in 0..n.max(1) {
                load_alphabet(&mut m, &mut r);
                let mut cnt = 0usize;
                for src in [2usize, 7, 11, 9] {
                    for (pi, pat) in pats.iter().enumerate() {
                        for mont in [false, true] {
                            for coord in 0..2usize {
                                cnt += 1;
                                if (cnt + it) % 2 == 1 && it > 0 {
                                    continue;
                                }
                                if cnt % 24 == 23 {
                                    load_alphabet(&mut m, &mut r);
                                }
                                let c = m.regs[src].verif_raw();
                                let target = if mont { *pat * rinv } else { *pat };
                                let lam = match c[coord].inverse() {
                                    Some(ci) => target * ci,
                                    None => continue,
                                };
                                m.rescale(&lam, src, 13);
                                for f in 0..ID_FORMS.len() {
                                    m.isid(f, 13);
                                }
                                for f in 0..EQ_FORMS.len() {
                                    m.eq(f, 13, 0);
                                    m.eq(f, 0, 13);
                                    m.eq(f, 13, src);
                                    m.eq(f, 13, (src + 1) % NREG);
                                }
                                m.enc(pi % ENC_FORMS.len(), 13);
                                m.hash(0, 13);
                            }
                        }
                    }
                }
            }
        }
        // equal elements with different internal representatives (C08's recipes)
        "coset" => {
            let mut m = Machine::new(out);
            let minus_one = le_sub_small(&R_LE, 1);
            for i in 0..n {
                m.reset();
                if i % 3 == 0 {
                    m.konst(1, 0);
                } else {
                    let x = rand_fq(&mut r);
                    m.ell(&x, 0);
                } // Q
                let x = rand_fq(&mut r);
                m.ell(&x, 1); // P
                let f = m.rot(MUL_FORMS.len());
                m.mul(f, &minus_one, 0, 2); // (-1)*Q
                let f = m.rot(NEG_FORMS.len());
                m.neg(f, 0, 3); // -Q
                let f = m.rot(BIN_FORMS.len());
                m.bin(f, 0, 2, 4); // Q + (-1)*Q   (add or sub form; both logged)
                m.bin(0, 1, 0, 5); // P + Q
                m.bin(6, 5, 0, 5); // P + Q - Q
                m.bin(0, 0, 2, 6); // Q + (-1)Q  = O
                m.konst(0, 7); // O
                for (a, b) in [(2, 3), (5, 1), (6, 7), (4, 7), (0, 0), (0, 3)] {
                    let f = m.rot(EQ_FORMS.len());
                    m.eq(f, a, b);
                    for h in 0..HASH_FORMS.len() {
                        m.hash(h, a);
                        m.hash(h, b);
                    }
                }
                for a in [6usize, 7, 4] {
                    for f in 0..ID_FORMS.len() {
                        m.isid(f, a);
                    }
                }
            }
        }
        // scalar multiplication: every form x scalar alphabet on the element alphabet
        "mulforms" => {
            let mut m = Machine::new(out);
            load_alphabet(&mut m, &mut r);
            let sa = scalar_alphabet();
            let ba = bigint_alphabet();
            let mut cnt = 0usize;
            for f in 0..MUL_FORMS.len() {
                for k in sa.iter() {
                    cnt += 1;
                    if n > 0 && cnt % n != 0 {
                        continue;
                    }
                    if cnt % 16 == 15 {
                        load_alphabet(&mut m, &mut r);
                    }
                    let a = 2 + (cnt % 10);
                    let save = m.regs;
                    m.mul(f, k, a, 0);
                    m.regs = save;
                    let e = m.regs[0];
                    emit(m.out, json!({"k":"restore","dst":0,"rep":rep(&e),"force":true}));
                }
            }
            for f in 0..MULBIG_FORMS.len() {
                for k in ba.iter() {
                    cnt += 1;
                    if n > 0 && cnt % n != 0 {
                        continue;
                    }
                    if cnt % 16 == 15 {
                        load_alphabet(&mut m, &mut r);
                    }
                    let a = 2 + (cnt % 10);
                    let save = m.regs;
                    m.mulbig(f, k, a, 0);
                    m.regs = save;
                    let e = m.regs[0];
                    emit(m.out, json!({"k":"restore","dst":0,"rep":rep(&e),"force":true}));
                }
            }
        }
        // r * P is the identity for every element of the alphabet and random elements
        "order" => {
            let mut m = Machine::new(out);
            for i in 0..n.max(1) {
                load_alphabet(&mut m, &mut r);
                for a in 0..NREG {
                    let f = m.rot(MULBIG_FORMS.len());
                    m.mulbig(f, &R_LE, a, (a + 1) % NREG);
                    m.isid(0, (a + 1) % NREG);
                    if i > 0 {
                        break;
                    }
                }
            }
        }
        // random msm instances (small, and large enough to change the window size of a Pippenger-style msm)
        "msm" => {
            let mut m = Machine::new(out);
            // structured part: every scalar of the alphabet (boundary values, word patterns) through every MSM entry
            // point, alone and next to a small term; and the term counts at which generic MSM code changes its window
            // width (32, 33; 2049 in long runs), with full-size scalars in [2^250, r) among small ones
            load_alphabet(&mut m, &mut r);
            let sa = scalar_alphabet();
            for (j, k) in sa.iter().enumerate() {
                if j % 12 == 11 {
                    load_alphabet(&mut m, &mut r);
                }
                for f in 0..MSM_FORMS.len() {
                    if (j + f) % 2 == 0 {
                        m.msm(f, &[k.clone()], &[2 + (j % 10)], 0);
                    } else {
                        m.msm(f, &[vec![3u8], k.clone()], &[7, 2 + (j % 10)], 0);
                    }
                }
            }
            let mut counts = vec![31usize, 32, 33];
            if n >= 100 {
                counts.push(2049);
            }
            for cnt in counts {
                for f in 0..MSM_FORMS.len() {
                    load_alphabet(&mut m, &mut r);
                    let srcs: Vec<usize> = (0..cnt).map(|i| 2 + (i * 5) % 10).collect();
                    let ks: Vec<Vec<u8>> = (0..cnt)
                        .map(|i| {
                            if i % 16 == 5 {
                                let mut b = rbytes(&mut r, 32);
                                b[31] = 0x04;
                                b[30] &= 0x7f;
                                b
                            } else {
                                small_scalar(&mut r)
                            }
                        })
                        .collect();
                    m.msm(f, &ks, &srcs, 0);
                }
            }
            for t in 0..n {
                load_alphabet(&mut m, &mut r);
                let len = match t % 8 {
                    5 => 31 + below(&mut r, 4),
                    6 => 40 + below(&mut r, 30),
                    7 => [127usize, 128, 129, 255, 256, 257, 258, 300][(t / 8) % 8],   // around block / window thresholds
                    _ => below(&mut r, 7),
                };
                let srcs: Vec<usize> = (0..len).map(|_| below(&mut r, NREG)).collect();
                let ks: Vec<Vec<u8>> = (0..len)
                    .map(|i| if len > 100 && i % 64 != 63 { small_scalar(&mut r) } else { rand_scalar(&mut r) })
                    .collect();
                let f = m.rot(MSM_FORMS.len().max(1));
                m.msm(f, &ks, &srcs, 0);
            }
        }
        // Elligator: structured + random inputs
        "ell" => {
            let mut m = Machine::new(out);
            m.reset();
            let mut inputs: Vec<Fq> = vec![Fq::ZERO, Fq::ONE, -Fq::ONE, decaf377::ZETA, -decaf377::ZETA];
            for k in 2..=16u64 {
                inputs.push(Fq::from(k));
                inputs.push(-Fq::from(k));
            }
            for k in [1usize, 8, 31, 32, 63, 64, 127, 128, 200, 251, 252] {
                inputs.push(fq_from(&le_pow2(k, 32)));
            }
            if let Some(z) = decaf377::ZETA.inverse() {
                inputs.push(z);
            }
            for _ in 0..n {
                inputs.push(fq_from(&rbytes(&mut r, 48)));
            }
            for (i, x) in inputs.iter().enumerate() {
                if i % 40 == 39 {
                    m.reset();
                }
                m.ell(x, i % NREG);
                m.ell(&-*x, (i + 1) % NREG);
                m.eq(0, i % NREG, (i + 1) % NREG);
            }
            // the two-input hash on every ordered pair of a small structured set (0, +-1, zeta, 1/zeta, small integers,
            // one random value and its negative and 1/(zeta x), whose image is the negative of x's)
            {
                let x = rand_fq(&mut r);
                let mut st: Vec<Fq> = vec![Fq::ZERO, Fq::ONE, -Fq::ONE, decaf377::ZETA, Fq::from(2u64), -Fq::from(2u64), Fq::from(3u64), x, -x];
                if let Some(z) = decaf377::ZETA.inverse() {
                    st.push(z);
                }
                if let Some(z) = (decaf377::ZETA * x).inverse() {
                    st.push(z);
                }
                let mut cnt = 0usize;
                for a in st.iter() {
                    for b in st.iter() {
                        cnt += 1;
                        if cnt % 30 == 29 {
                            m.reset();
                        }
                        m.h2c(a, b, cnt % NREG);
                    }
                }
                m.reset();
            }
            for i in 0..(n / 4 + 4) {
                let a = inputs[below(&mut r, inputs.len())];
                let b = match i % 6 {
                    0 => a,          // both inputs equal: the sum is a doubling
                    1 => -a,         // same element again (sign symmetry)
                    2 => Fq::ZERO,
                    _ => inputs[below(&mut r, inputs.len())],
                };
                m.h2c(&a, &b, i % NREG);
            }
        }
        // Elligator on inputs given in a file (one 32-byte array per line; generated by TLC)
        // constructed inputs through the calls both builds share, each followed by the encoding of the result
        // (C12: a line is a byte array = Elligator input, or {"b": bytes} = decoder input)
        "equivfile" => {
            let mut m = Machine::new(out);
            m.reset();
            let text = std::fs::read_to_string(arg).expect("input file");
            let dec0 = DEC32_FORMS.iter().position(|f| f.0 == "vartime_decompress").unwrap();
            let enc0 = ENC_FORMS.iter().position(|f| f.0 == "vartime_compress").unwrap();
            for (i, line) in text.lines().enumerate() {
                if i % 60 == 59 {
                    m.reset();
                }
                let v: Value = serde_json::from_str(line).expect("json");
                let dst = i % NREG;
                if v.is_array() && v[0].is_array() {
                    let pr: Vec<Vec<u8>> = serde_json::from_value(v).expect("pair");
                    m.h2c(&fq_from(&pr[0]), &fq_from(&pr[1]), dst);
                    m.enc(enc0, dst);
                } else if v.is_array() {
                    let x: Vec<u8> = serde_json::from_value(v).expect("bytes");
                    m.ell(&fq_from(&x), dst);
                    m.enc(enc0, dst);
                    m.h2c(&fq_from(&x), &Fq::from(i as u64), (dst + 1) % NREG);
                    m.enc(enc0, (dst + 1) % NREG);
                } else {
                    let b: Vec<u8> = serde_json::from_value(v["b"].clone()).expect("bytes");
                    if b.len() == 32 {
                        m.decode(dec0, &b, dst);
                        m.enc(enc0, dst);
                    }
                }
            }
        }
        // two-input hash on constructed PAIRS (tools/elligator_pairs.py: candidates for equal / opposite images)
        "h2cfile" => {
            let mut m = Machine::new(out);
            m.reset();
            let text = std::fs::read_to_string(arg).expect("input file");
            let enc0 = ENC_FORMS.iter().position(|f| f.0 == "vartime_compress").unwrap();
            for (i, line) in text.lines().enumerate() {
                if i % 40 == 39 {
                    m.reset();
                }
                let v: Vec<Vec<u8>> = serde_json::from_str(line).expect("pair of byte arrays");
                let (x, y) = (fq_from(&v[0]), fq_from(&v[1]));
                m.ell(&x, 1);
                m.ell(&y, 2);
                m.eq(0, 1, 2);
                m.h2c(&x, &y, 3);
                m.enc(enc0, 3);
                m.h2c(&y, &x, 4);
                m.eq(0, 3, 4);
            }
        }
        "ellfile" => {
            let mut m = Machine::new(out);
            m.reset();
            let text = std::fs::read_to_string(arg).expect("input file");
            for (i, line) in text.lines().enumerate() {
                let v: Vec<u8> = serde_json::from_str(line).expect("byte array");
                m.ell(&fq_from(&v), i % NREG);
            }
        }
        // decoding of random strings (top 3 bits cleared, so ~1/8 are accepted) through all entries
        "decrand" => {
            let mut m = Machine::new(out);
            m.reset();
            for i in 0..n {
                if i % 64 == 63 {
                    m.reset();
                }
                let mut b = rbytes(&mut r, 32);
                if i % 8 != 0 {
                    b[31] &= 0x1f;
                }
                if i % 4 == 0 {
                    b[0] &= 0xfe;
                }
                let j = m.rot(DEC32_FORMS.len() + DECSLICE_FORMS.len());
                m.decode(j, &b, i % NREG);
                if i % 5 == 0 {
                    let f = m.rot(ENC_FORMS.len());
                    m.enc(f, i % NREG);
                }
            }
        }
        // C01 direction 2 on random strings: decode, and re-encode when accepted
        "rt2rand" => {
            let mut m = Machine::new(out);
            for i in 0..n {
                if i % 64 == 0 {
                    m.reset();
                }
                let mut b = rbytes(&mut r, 32);
                b[31] &= 0x1f;
                b[0] &= 0xfe;
                let j = m.rot(DEC32_FORMS.len() + DECSLICE_FORMS.len());
                let f = m.rot(ENC_FORMS.len());
                m.rt2(j, f, &b, i % NREG);
            }
        }
        // C01 direction 2 on valid encodings of random elements and their near misses
        "rt2near" => {
            let mut m = Machine::new(out);
            for i in 0..n {
                m.reset();
                let x = rand_fq(&mut r);
                m.ell(&x, 0);
                let k = rand_scalar(&mut r);
                m.mul(i, &k, 0, 1);
                let s = m.regs[1].vartime_compress().0.to_vec();
                let mut cands = vec![s.clone(), le_sub(&Q_LE, &s), le_add_small(&s, 1)[..32].to_vec()];
                for _ in 0..5 {
                    let bit = below(&mut r, 256);
                    let mut f = s.clone();
                    f[bit / 8] ^= 1 << (bit % 8);
                    cands.push(f);
                }
                for c in cands.iter() {
                    let j = m.rot(DEC32_FORMS.len() + DECSLICE_FORMS.len());
                    let f = m.rot(ENC_FORMS.len());
                    m.rt2(j, f, c, 2);
                }
            }
        }
        // C01 on the strings of a TLC-generated plan: rt2 (decode, re-encode) on every string; for the
        // accepted ones also rt (encode the decoded element, decode again, compare) through rotating forms
        "rtfile" => {
            let mut m = Machine::new(out);
            m.reset();
            let text = std::fs::read_to_string(arg).expect("input file");
            for (i, line) in text.lines().enumerate() {
                if i % 50 == 49 {
                    m.reset();
                }
                let v: Value = serde_json::from_str(line).expect("json");
                let b: Vec<u8> = serde_json::from_value(v["b"].clone()).expect("bytes");
                let kind = v["kind"].as_str().unwrap_or("");
                let edge = kind == "edge_valid" || kind == "valid" || kind == "limb";
                // every decoding entry point for everything but the 1536 single-bit flips (one rotating entry each)
                let reps = if edge || kind != "bitflip" { DEC32_FORMS.len() + DECSLICE_FORMS.len() } else { 1 };
                for _ in 0..reps {
                    let j = m.rot(DEC32_FORMS.len() + DECSLICE_FORMS.len());
                    let f = m.rot(ENC_FORMS.len());
                    m.rt2(j, f, &b, 1);
                }
                if v["ok"].as_bool() == Some(true) {
                    m.decode(0, &b, 2);
                    for _ in 0..(if edge { 6 } else { 1 }) {
                        let f = m.rot(ENC_FORMS.len());
                        let j = m.rot(DEC32_FORMS.len() + DECSLICE_FORMS.len());
                        m.rt(f, j, 2, 3);
                    }
                    if edge {
                        // other representatives of the same element (coset member, projective scaling, negation
                        // twice, sum with an element and its inverse), each through every encoder
                        m.torque(2, 4);
                        let lam = rand_fq(&mut r) + Fq::from(2u64);
                        m.rescale(&lam, 2, 5);
                        m.rescale(&(lam + Fq::from(1u64)), 4, 6);
                        m.neg(0, 2, 7);
                        m.neg(1, 7, 7);
                        m.konst(1, 8);
                        m.bin(0, 2, 8, 9);
                        m.bin(1, 9, 8, 9);
                        for a in [2usize, 4, 5, 6, 7, 9] {
                            for f in 0..ENC_FORMS.len() {
                                m.enc(f, a);
                            }
                            for f in 0..ENCF_FORMS.len() {
                                m.encf(f, a);
                            }
                        }
                    }
                }
            }
        }
        // decoding of strings given in a file: {"b":[...], "entries":"all"|"one"}
        "decfile" => {
            let mut m = Machine::new(out);
            m.reset();
            let text = std::fs::read_to_string(arg).expect("input file");
            for (i, line) in text.lines().enumerate() {
                if i % 40 == 39 {
                    m.reset();
                }
                let v: Value = serde_json::from_str(line).expect("json");
                let b: Vec<u8> = serde_json::from_value(v["b"].clone()).expect("bytes");
                let all = v["entries"].as_str() == Some("all");
                let nent = if b.len() == 32 {
                    DEC32_FORMS.len() + DECSLICE_FORMS.len()
                } else {
                    DECSLICE_FORMS.len()
                };
                if all {
                    for j in 0..nent {
                        m.decode(j, &b, (i + j) % NREG);
                    }
                } else {
                    let j = m.rot(nent);
                    m.decode(j, &b, i % NREG);
                }
            }
        }
        // near misses of valid encodings, built from real encodings of real elements
        "decnear" => {
            let mut m = Machine::new(out);
            for i in 0..n.max(1) {
                load_alphabet(&mut m, &mut r);
                let src = if i == 0 { 2 } else { 2 + below(&mut r, 10) };
                if i > 0 {
                    let k = rand_scalar(&mut r);
                    m.mul(0, &k, src, src);
                }
                let s = m.enc(0, src);
                let q = Q_LE.to_vec();
                let mut cands: Vec<Vec<u8>> = vec![s.clone()];
                // s + q aliases while < 2^256
                let mut al = le_add(&s, &q);
                while al.len() <= 32 || (al.len() == 33 && al[32] == 0) {
                    al.truncate(32);
                    cands.push(al.clone());
                    al = le_add(&al, &q);
                }
                // q - s (the negative of s)
                cands.push(le_sub(&q, &s));
                cands.push(le_add_small(&s, 1)[..32].to_vec());
                if s.iter().any(|b| *b != 0) {
                    cands.push(le_sub_small(&s, 1));
                }
                // single bit flips
                let nb = if i == 0 { 256 } else { 24 };
                for t in 0..nb {
                    let bit = if i == 0 { t } else { below(&mut r, 256) };
                    let mut f = s.clone();
                    f[bit / 8] ^= 1 << (bit % 8);
                    cands.push(f);
                }
                for bit in [253usize, 254, 255] {
                    let mut f = s.clone();
                    f[bit / 8] |= 1 << (bit % 8);
                    cands.push(f);
                }
                for (t, c) in cands.iter().enumerate() {
                    if i == 0 && t < 8 {
                        let nent = DEC32_FORMS.len() + DECSLICE_FORMS.len();
                        for j in 0..nent {
                            m.decode(j, c, 0);
                        }
                    } else {
                        let j = m.rot(DEC32_FORMS.len() + DECSLICE_FORMS.len());
                        m.decode(j, c, 0);
                    }
                }
            }
            // absolute values and lengths
            m.reset();
            let q = Q_LE.to_vec();
            let mut abs: Vec<Vec<u8>> = vec![
                vec![0; 32],
                le_pow2(0, 32),
                le_sub_small(&q, 1),
                q.clone(),
                le_add_small(&q, 1),
                le_pow2(253, 32),
                le_sub_small(&le_pow2(253, 32), 1),
                vec![0xff; 32],
                le_shr1(&le_sub_small(&q, 1)),
                le_sub_small(&q, 2),
                le_sub_small(&q, 3),
                le_pow2(252, 32),
                le_pow2(255, 32),
            ];
            for k in 2..40u32 {
                abs.push(le_add_small(&vec![0; 32], k));
            }
            let nent = DEC32_FORMS.len() + DECSLICE_FORMS.len();
            for c in abs.iter() {
                for j in 0..nent {
                    m.decode(j, c, 1);
                }
            }
            for len in 0..=80usize {
                if len == 32 {
                    continue;
                }
                let mut b = vec![0u8; len];
                if len > 0 {
                    b[0] = 8;
                }
                for j in 0..DECSLICE_FORMS.len() {
                    m.decode(j, &b, 1);
                }
                let b2 = rbytes(&mut r, len);
                m.decode(len, &b2, 1);
            }
        }
        // C12: one operation stream of calls that BOTH builds offer, chosen by name so that the two
        // builds execute exactly the same calls with the same arguments
        "equiv" => {
            let mut m = Machine::new(out);
            let bin_names = ["&E+&E", "E+&E", "&E+E", "E+E", "E+=&E", "E+=E", "&E-&E", "E-&E", "&E-E", "E-E", "E-=&E", "E-=E"];
            let mul_names = ["E*=&Fr", "E*=Fr", "&E*&Fr", "&Fr*&E", "E*&Fr", "&E*Fr", "E*Fr", "Fr*&E", "&Fr*E", "Fr*E"];
            let enc_names = ["vartime_compress", "Encoding::from(&E)", "Encoding::from(E)", "<[u8;32]>::from(E)", "<[u8;32]>::from(Encoding)"];
            let dec_names = ["vartime_decompress", "TryFrom<[u8;32]> E", "TryFrom<Encoding> E", "TryFrom<&Encoding> E", "Encoding::from([u8;32])",
                             "TryFrom<&[u8]> E", "TryFrom<&[u8]> Encoding", "TryInto<Element> for &[u8]"];
            let bin_ix: Vec<usize> = bin_names.iter().map(|n| BIN_FORMS.iter().position(|f| f.1 == *n).unwrap()).collect();
            let mul_ix: Vec<usize> = mul_names.iter().map(|n| MUL_FORMS.iter().position(|f| f.0 == *n).unwrap()).collect();
            let enc_ix: Vec<usize> = enc_names.iter().map(|n| ENC_FORMS.iter().position(|f| f.0 == *n).unwrap()).collect();
            let dec_ix: Vec<usize> = dec_names
                .iter()
                .map(|n| {
                    DEC32_FORMS.iter().position(|f| f.0 == *n).unwrap_or_else(|| DEC32_FORMS.len() + DECSLICE_FORMS.iter().position(|f| f.0 == *n).unwrap())
                })
                .collect();
            let neg_ix = NEG_FORMS.iter().position(|f| f.0 == "-E").unwrap();
            let eq_ix: Vec<usize> = ["E==E", "!(E!=E)"].iter().map(|n| EQ_FORMS.iter().position(|f| f.0 == *n).unwrap()).collect();
            let id_ix: Vec<usize> = ["is_identity", "==IDENTITY"].iter().map(|n| ID_FORMS.iter().position(|f| f.0 == *n).unwrap()).collect();
            let const_ix: Vec<usize> = ["IDENTITY", "GENERATOR"].iter().map(|n| CONST_FORMS.iter().position(|f| f.0 == *n).unwrap()).collect();
            let len: usize = arg.parse().unwrap_or(40);
            let mut ctr = 0usize;
            for _ in 0..n {
                m.reset();
                m.konst(const_ix[1], 1);
                let x = rand_fq(&mut r);
                m.ell(&x, 2);
                for _ in 0..len {
                    ctr += 1;
                    let a = below(&mut r, NREG);
                    let b = if below(&mut r, 6) == 0 { a } else { below(&mut r, NREG) };
                    let dst = below(&mut r, NREG);
                    let w = below(&mut r, 100);
                    let mut produced = true;
                    match w {
                        0..=29 => m.bin(bin_ix[ctr % bin_ix.len()], a, b, dst),
                        30..=34 => m.neg(neg_ix, a, dst),
                        35..=39 => m.dbl(0, a, dst),
                        40..=47 => {
                            let k = rand_scalar(&mut r);
                            m.mul(mul_ix[ctr % mul_ix.len()], &k, a, dst)
                        }
                        48..=57 => {
                            let x = rand_fq(&mut r);
                            m.ell(&x, dst)
                        }
                        58..=60 => {
                            let x = rand_fq(&mut r);
                            let y = rand_fq(&mut r);
                            m.h2c(&x, &y, dst)
                        }
                        61..=63 => m.konst(const_ix[ctr % 2], dst),
                        64..=73 => {
                            // decode: an encoding of a register, a mutation of it, or a random string
                            let mut bytes = m.regs[a].vartime_compress().0.to_vec();
                            match below(&mut r, 4) {
                                0 => {}
                                1 => {
                                    let bit = below(&mut r, 256);
                                    bytes[bit / 8] ^= 1 << (bit % 8);
                                }
                                2 => {
                                    bytes = rbytes(&mut r, 32);
                                    bytes[31] &= 0x1f;
                                    bytes[0] &= 0xfe;
                                }
                                _ => {
                                    let l = below(&mut r, 70);
                                    bytes = rbytes(&mut r, l);
                                }
                            }
                            let mut j = dec_ix[ctr % dec_ix.len()];
                            if bytes.len() != 32 {
                                j = ctr % DECSLICE_FORMS.len(); // slice entry points only (same list in both builds)
                            }
                            m.decode(j, &bytes, dst);
                        }
                        74..=83 => {
                            m.enc(enc_ix[ctr % enc_ix.len()], a);
                            produced = false;
                        }
                        84..=85 => {
                            m.encf(0, a);
                            produced = false;
                        }
                        86..=93 => {
                            m.eq(eq_ix[ctr % 2], a, b);
                            produced = false;
                        }
                        _ => {
                            m.isid(id_ix[ctr % 2], a);
                            produced = false;
                        }
                    }
                    if produced {
                        m.enc(enc_ix[0], dst);
                    }
                }
            }
        }
        // C06: constructors without a functional specification: whatever they hand out must be valid
        "ctor" => {
            let mut m = Machine::new(out);
            m.reset();
            ctor_suite(&mut m, &mut r, n);
        }
        // C09: inputs generated by TLC (spec/SqrtPlan.tla), one {"num":..,"den":..} per line
        "sqrtfile" => {
            emit(out, json!({"k":"reset","build":BUILD}));
            let text = std::fs::read_to_string(arg).expect("input file");
            for (i, line) in text.lines().enumerate() {
                if i % 300 == 299 {
                    emit(out, json!({"k":"reset","build":BUILD}));
                }
                let v: Value = serde_json::from_str(line).expect("json");
                let num: Vec<u8> = serde_json::from_value(v["num"].clone()).expect("num");
                let den: Vec<u8> = serde_json::from_value(v["den"].clone()).expect("den");
                emit_sqrt(out, &fq_from(&num), &fq_from(&den), v["kind"].as_str().unwrap_or(""));
            }
        }
        "sqrtrand" => {
            emit(out, json!({"k":"reset","build":BUILD}));
            for i in 0..n {
                if i % 300 == 299 {
                    emit(out, json!({"k":"reset","build":BUILD}));
                }
                let num = rand_fq(&mut r);
                let den = match below(&mut r, 6) {
                    0 => num,
                    1 => num * decaf377::ZETA,
                    2 => num.square(),
                    _ => rand_fq(&mut r),
                };
                emit_sqrt(out, &num, &den, "random");
            }
        }
        // first-use race: 16 threads call the routine at once in a fresh process (lazily built tables)
        "sqrtrace" => {
            let inputs: Vec<(Fq, Fq)> = (0..16 * 8).map(|_| (rand_fq(&mut r), rand_fq(&mut r))).collect();
            let results: Vec<Vec<(Fq, Fq, Result<(bool, Fq), String>)>> = std::thread::scope(|sc| {
                let hs: Vec<_> = (0..16)
                    .map(|t| {
                        let inp = inputs[t * 8..t * 8 + 8].to_vec();
                        sc.spawn(move || inp.iter().map(|(a, b)| (*a, *b, guarded(|| sqrt_call(a, b)))).collect::<Vec<_>>())
                    })
                    .collect();
                hs.into_iter().map(|h| h.join().unwrap()).collect()
            });
            emit(out, json!({"k":"reset","build":BUILD}));
            for t in results {
                for (a, b, res) in t {
                    let ev = json!({"k":"sqrt","impl":SQRT_IMPL,"num":fq_bytes(&a),"den":fq_bytes(&b),"kind":"race"});
                    emit(out, finish(ev, res.map(|(f, y)| json!({"flag":f,"y":fq_bytes(&y)}))));
                }
            }
        }
        _ => return false,
    }
    true
}

/// a fair stream whose first `left` draws are masked
#[cfg(feature = "ark")]
struct MaskedRng {
    inner: ChaCha20Rng,
    left: usize,
    or32: u32,
    and32: u32,
    or64: u64,
    and64: u64,
    or8: u8,
    and8: u8,
}
#[cfg(feature = "ark")]
impl rand_core::RngCore for MaskedRng {
    fn next_u32(&mut self) -> u32 {
        let w = self.inner.next_u32();
        if self.left > 0 {
            self.left -= 1;
            (w | self.or32) & self.and32
        } else {
            w
        }
    }
    fn next_u64(&mut self) -> u64 {
        let w = self.inner.next_u64();
        if self.left > 0 {
            self.left -= 1;
            (w | self.or64) & self.and64
        } else {
            w
        }
    }
    fn fill_bytes(&mut self, dest: &mut [u8]) {
        self.inner.fill_bytes(dest);
        if self.left > 0 {
            self.left -= 1;
            for x in dest.iter_mut() {
                *x = (*x | self.or8) & self.and8;
            }
        }
    }
    fn try_fill_bytes(&mut self, dest: &mut [u8]) -> Result<(), rand_core::Error> {
        self.fill_bytes(dest);
        Ok(())
    }
}

#[cfg(feature = "ark")]
fn ctor_suite(m: &mut Machine, r: &mut ChaCha20Rng, n: usize) {
    use ark_ff::UniformRand;
    use ark_std::rand::distributions::{Distribution, Standard};
    use rand_core::SeedableRng;
    let mut put = |m: &mut Machine, name: &str, arg: &[u8], res: Result<Option<Element>, String>, i: usize| {
        let mut ev = json!({"k":"ctor","name":name,"arg":arg,"dst":i % NREG});
        match res {
            Ok(Some(e)) => {
                ev["some"] = json!(true);
                ev["rep"] = rep(&e);
                m.regs[i % NREG] = e;
            }
            Ok(None) => ev["some"] = json!(false),
            Err(p) => ev["panic"] = json!(p),
        }
        emit(m.out, ev);
    };
    // structured byte strings for from_random_bytes: y = 0, +-1, small values, with and without the sign flag,
    // all-zero / all-ones, every length 0..=64
    let mut cands: Vec<Vec<u8>> = Vec::new();
    let q = Q_LE.to_vec();
    for y in [vec![0u8; 32], le_pow2(0, 32), le_sub_small(&q, 1), le_add_small(&vec![0; 32], 2), le_sub_small(&q, 2), q.clone(), vec![0xff; 32]] {
        cands.push(y.clone());
        let mut f = y.clone();
        f[31] |= 0x80;
        cands.push(f);
    }
    for k in 3..60u32 {
        cands.push(le_add_small(&vec![0; 32], k));
    }
    for len in 0..=64usize {
        cands.push(rbytes(r, len));
        cands.push(vec![0u8; len]);
    }
    for _ in 0..n {
        let mut b = rbytes(r, 32);
        if below(r, 2) == 0 {
            b[31] &= 0x9f;
        }
        cands.push(b);
    }
    for (i, c) in cands.iter().enumerate() {
        if i % 100 == 99 {
            m.reset();
        }
        let res = guarded(|| <AffinePoint as AffineRepr>::from_random_bytes(c).map(el));
        put(m, "AffinePoint::from_random_bytes", c, res, i);
    }
    m.reset();
    // samplers on seeded RNG streams
    for i in 0..(n / 4 + 8) {
        if i % 50 == 49 {
            m.reset();
        }
        let sd = (i as u64).to_le_bytes();
        let mut rng = rand_chacha::ChaCha20Rng::seed_from_u64(r.next_u64() ^ i as u64);
        let (name, res): (&str, Result<Option<Element>, String>) = match i % 4 {
            0 => ("Element::rand", guarded(|| Some(Element::rand(&mut rng)))),
            1 => ("AffinePoint::rand", guarded(|| Some(el(AffinePoint::rand(&mut rng))))),
            2 => ("Standard.sample::<Element>", guarded(|| Some(Distribution::<Element>::sample(&Standard, &mut rng)))),
            _ => ("Standard.sample::<AffinePoint>", guarded(|| Some(el(Distribution::<AffinePoint>::sample(&Standard, &mut rng))))),
        };
        put(m, name, &sd, res, i);
    }
    // samplers on adversarial streams: the first `hostile` draws are masked (all ones / all zeros / top bit set /
    // low bit set, per draw width), the rest is a fair ChaCha stream, so a rejection sampler must still terminate
    m.reset();
    let masks: [(u32, u32, u64, u64, u8, u8); 7] = [
        (0x8000_0000, !0, 0, !0, 0, 0xff),          // top bit of every 32-bit draw set (sign choice of the candidate)
        (!0, !0, !0, !0, 0xff, 0xff),               // everything all ones
        (0, 0, 0, 0, 0, 0),                         // everything zero
        (0, 0x7fff_ffff, 0, !0, 0, 0xff),           // top bit of 32-bit draws clear
        (0, !0, 0, 1, 0, 0xff),                     // 64-bit draws in {0, 1}
        (0, !0, !0 << 1, !0, 0, 0xff),              // 64-bit draws >= 2^64 - 2
        (1, !0, 1, !0, 1, 0xff),                    // low bit set
    ];
    let mut idx = 0usize;
    for (mi, mk) in masks.iter().enumerate() {
        // (a candidate costs ~16 draws, so the long prefixes force thousands of consecutive rejections;
        //  the sign-forcing mask gets several independent streams)
        let lens: Vec<usize> = if mi == 0 { vec![1, 64, 300, 4099, 20000, 30000, 30001, 30002, 30003, 30004, 30005, 100000] }
                               else { vec![1, 9, 64, 255, 300, 1000, 4099, 20000, 100000] };
        for hostile in lens {
            idx += 1;
            if idx % 20 == 19 {
                m.reset();
            }
            let inner = rand_chacha::ChaCha20Rng::seed_from_u64(r.next_u64());
            let mut rng = MaskedRng { inner, left: hostile, or32: mk.0, and32: mk.1, or64: mk.2, and64: mk.3, or8: mk.4, and8: mk.5 };
            let mut arg = vec![mi as u8];
            arg.extend_from_slice(&(hostile as u32).to_le_bytes());
            let (name, res): (&str, Result<Option<Element>, String>) = match idx % 2 {
                0 => ("Element::rand[masked]", guarded(|| Some(Element::rand(&mut rng)))),
                _ => ("AffinePoint::rand[masked]", guarded(|| Some(el(AffinePoint::rand(&mut rng))))),
            };
            put(m, name, &arg, res, idx);
        }
    }
    // every mode of the stream deserialisers (compressed / uncompressed x validated / unchecked, single values and
    // Vec containers) on: valid encodings, invalid encodings, and 64-byte x || y strings of valid representatives,
    // of on-curve points OUTSIDE the group (Q + T4 = (i y, i x), i^2 = -1) and of off-curve pairs.  A mode that is
    // not offered ("not implemented" panic) hands out nothing, which is admissible; whatever IS handed out must be
    // a valid element.
    m.reset();
    load_alphabet(m, r);
    {
        use ark_ff::Field;
        use ark_serialize::{Compress, Validate};
        let i_unit = (-Fq::ONE).sqrt().expect("q = 1 mod 4");
        let mut inputs: Vec<(String, Vec<u8>)> = Vec::new();
        let reps: Vec<Element> = m.regs.to_vec();
        for (j, e) in reps.iter().enumerate() {
            let enc = e.vartime_compress().0.to_vec();
            inputs.push(("valid32".into(), enc.clone()));
            let mut neg = (-e.vartime_compress_to_field()).to_bytes_le().to_vec();
            neg.truncate(32);
            inputs.push(("negated32".into(), neg));
            let mut plus = enc.clone();
            plus[0] ^= 1 << (j % 8);
            inputs.push(("flipped32".into(), plus));
            let c = e.verif_raw();
            if let Some(zi) = c[2].inverse() {
                let (x, y) = (c[0] * zi, c[1] * zi);
                let cat = |a: Fq, b: Fq| -> Vec<u8> {
                    let mut v = a.to_bytes_le().to_vec();
                    v.extend_from_slice(&b.to_bytes_le());
                    v
                };
                inputs.push(("xy_valid".into(), cat(x, y)));
                inputs.push(("xy_out_of_group".into(), cat(i_unit * y, i_unit * x)));
                inputs.push(("xy_out_of_group".into(), cat(-(i_unit * y), i_unit * x)));
                inputs.push(("xy_off_curve".into(), cat(x + Fq::ONE, y)));
            }
        }
        let modes = [(Compress::Yes, Validate::Yes, "C,V"), (Compress::Yes, Validate::No, "C,-"), (Compress::No, Validate::Yes, "U,V"), (Compress::No, Validate::No, "U,-")];
        let classify = |res: Result<Result<Option<Element>, String>, String>| -> Result<Option<Element>, String> {
            match res {
                Ok(Ok(x)) => Ok(x),
                Ok(Err(_)) => Ok(None),
                Err(p) if p.contains("not implemented") => Ok(None),
                Err(p) => Err(p),
            }
        };
        let mut idx = 0usize;
        for (class, bytes) in inputs.iter() {
            for (cm, vm, mname) in modes.iter() {
                idx += 1;
                if idx % 150 == 149 {
                    m.reset();
                }
                let r1 = guarded(|| Element::deserialize_with_mode(&bytes[..], *cm, *vm).map(Some).map_err(|e| format!("{:?}", e)));
                put(m, &format!("Element::deserialize_with_mode[{}] {}", mname, class), bytes, classify(r1), idx);
                let r2 = guarded(|| AffinePoint::deserialize_with_mode(&bytes[..], *cm, *vm).map(|a| Some(el(a))).map_err(|e| format!("{:?}", e)));
                put(m, &format!("AffinePoint::deserialize_with_mode[{}] {}", mname, class), bytes, classify(r2), idx + 1);
            }
        }
        // containers: three items, the constructed one in the middle
        m.reset();
        let first32 = inputs.iter().find(|x| x.0 == "valid32").map(|x| x.1.clone()).unwrap_or_default();
        let first64 = inputs.iter().find(|x| x.0 == "xy_valid").map(|x| x.1.clone()).unwrap_or_default();
        for (class, bytes) in inputs.iter() {
            for (cm, vm, mname) in modes.iter() {
                let honest = if bytes.len() == 32 { &first32 } else { &first64 };
                let mut buf = 3u64.to_le_bytes().to_vec();
                buf.extend_from_slice(honest);
                buf.extend_from_slice(bytes);
                buf.extend_from_slice(honest);
                let rv = guarded(|| Vec::<AffinePoint>::deserialize_with_mode(&buf[..], *cm, *vm).map_err(|e| format!("{:?}", e)));
                let items: Vec<Result<Option<Element>, String>> = match rv {
                    Ok(Ok(v)) => v.into_iter().map(|a| Ok(Some(el(a)))).collect(),
                    Ok(Err(_)) => vec![Ok(None)],
                    Err(p) if p.contains("not implemented") => vec![Ok(None)],
                    Err(p) => vec![Err(p)],
                };
                for it in items {
                    idx += 1;
                    if idx % 150 == 149 {
                        m.reset();
                    }
                    put(m, &format!("Vec<AffinePoint>::deserialize_with_mode[{}] {}", mname, class), bytes, it, idx);
                }
                let rv = guarded(|| Vec::<Element>::deserialize_with_mode(&buf[..], *cm, *vm).map_err(|e| format!("{:?}", e)));
                let items: Vec<Result<Option<Element>, String>> = match rv {
                    Ok(Ok(v)) => v.into_iter().map(|a| Ok(Some(a))).collect(),
                    Ok(Err(_)) => vec![Ok(None)],
                    Err(p) if p.contains("not implemented") => vec![Ok(None)],
                    Err(p) => vec![Err(p)],
                };
                for it in items {
                    idx += 1;
                    if idx % 150 == 149 {
                        m.reset();
                    }
                    put(m, &format!("Vec<Element>::deserialize_with_mode[{}] {}", mname, class), bytes, it, idx);
                }
            }
        }
    }
    // batch conversions of mixed representatives
    m.reset();
    load_alphabet(m, r);
    let all: Vec<Element> = m.regs.to_vec();
    let res = guarded(|| Element::normalize_batch(&all));
    if let Ok(v) = res {
        for (i, a) in v.iter().enumerate() {
            let e = el(*a);
            m.regs[i] = e;
            emit(m.out, json!({"k":"conv","name":"normalize_batch[all]","a":i,"dst":i,"rep":rep(&e)}));
        }
    }
    // batches whose members' internal Z coordinates are RELATED (product 1, sum 0, equal, one the inverse of the other,
    // -1, ...), built with the rescaling hook; every output must be a valid representative of its input
    {
        let lam = {
            let l = rand_fq(r) + Fq::from(3u64);
            if l == Fq::ZERO || l == Fq::ONE || l == -Fq::ONE { Fq::from(7u64) } else { l }
        };
        let li = lam.inverse().unwrap_or(Fq::ONE);
        let scal = |m: &Machine, i: usize, l: Fq| -> Element {
            let c = m.regs[i].verif_raw();
            let zi = c[2].inverse().unwrap_or(Fq::ONE);
            // first normalise to Z = 1, then scale by l: the member's Z is exactly l
            let k = zi * l;
            Element::verif_from_raw([c[0] * k, c[1] * k, c[2] * k, c[3] * k])
        };
        load_alphabet(m, r);
        let batches: Vec<(&str, Vec<(usize, Fq)>)> = vec![
            ("Z product 1", vec![(2, lam), (7, li)]),
            ("Z product 1 (three)", vec![(2, lam), (7, lam), (11, li * li)]),
            ("Z sum 0", vec![(2, lam), (7, -lam)]),
            ("Z equal", vec![(2, lam), (7, lam), (9, lam)]),
            ("Z = -1 and 1", vec![(2, -Fq::ONE), (7, Fq::ONE)]),
            ("Z product -1", vec![(2, lam), (7, -li)]),
            ("Z product 1 with both identity representatives", vec![(0, lam), (1, li), (7, Fq::ONE)]),
            ("Z product 1, one member twice", vec![(2, lam), (2, li)]),
        ];
        for (name, members) in batches.iter() {
            for which in 0..2 {
                // (built from the registers as they are NOW: the alphabet is reloaded after every batch)
                let elems: Vec<Element> = members.iter().map(|(i, l)| scal(m, *i, *l)).collect();
                let res = guarded(|| {
                    if which == 0 {
                        Element::normalize_batch(&elems)
                    } else {
                        use ark_ec::ScalarMul;
                        Element::batch_convert_to_mul_base(&elems)
                    }
                });
                if let Ok(v) = res {
                    for (j, a) in v.iter().enumerate() {
                        let e = el(*a);
                        let src = members[j].0;
                        emit(m.out, json!({"k":"conv","name":format!("{}[{}]", if which == 0 { "normalize_batch" } else { "batch_convert_to_mul_base" }, name),
                            "a":src,"dst":13,"rep":rep(&e)}));
                        m.regs[13] = e;
                    }
                }
                load_alphabet(m, r);
            }
        }
    }
    // LONG batches (around plausible chunk sizes) of un-normalised members
    for blen in [255usize, 256, 257, 300, 600] {
        for which in 0..2 {
            load_alphabet(m, r);
            let lam0 = rand_fq(r) + Fq::from(5u64);
            // (sources are registers 0..11; register 13 is the scratch destination of the logged outputs)
            let srcs: Vec<usize> = (0..blen).map(|j| (j * 5 + 2) % 12).collect();
            let elems: Vec<Element> = srcs
                .iter()
                .enumerate()
                .map(|(j, i)| {
                    let c = m.regs[*i].verif_raw();
                    // (the structured sampler can return -j: a zero scaling would not be a representative at all)
                    let k0 = lam0 + Fq::from(j as u64);
                    let k = if k0 == Fq::ZERO { Fq::ONE } else { k0 };
                    Element::verif_from_raw([c[0] * k, c[1] * k, c[2] * k, c[3] * k])
                })
                .collect();
            let res = guarded(|| {
                if which == 0 {
                    Element::normalize_batch(&elems)
                } else {
                    use ark_ec::ScalarMul;
                    Element::batch_convert_to_mul_base(&elems)
                }
            });
            if let Ok(v) = res {
                for (j, a) in v.iter().enumerate() {
                    // every member near a chunk boundary, every 16th elsewhere
                    if !(j % 16 == 0 || (j % 256) < 3 || (j % 256) > 252 || j + 3 > blen) {
                        continue;
                    }
                    let e = el(*a);
                    emit(m.out, json!({"k":"conv","name":format!("{}[len {}]", if which == 0 { "normalize_batch" } else { "batch_convert_to_mul_base" }, blen),
                        "a":srcs[j],"dst":13,"rep":rep(&e)}));
                    m.regs[13] = e;
                }
            }
        }
    }
    load_alphabet(m, r);
    let all: Vec<Element> = m.regs.to_vec();
    let res = guarded(|| {
        use ark_ec::ScalarMul;
        Element::batch_convert_to_mul_base(&all)
    });
    if let Ok(v) = res {
        for (i, a) in v.iter().enumerate() {
            let e = el(*a);
            m.regs[i] = e;
            emit(m.out, json!({"k":"conv","name":"batch_convert_to_mul_base[all]","a":i,"dst":i,"rep":rep(&e)}));
        }
    }
}
#[cfg(not(feature = "ark"))]
fn ctor_suite(m: &mut Machine, r: &mut ChaCha20Rng, _n: usize) {
    // the minimal build has no samplers / random-bytes constructor: constants and conversions only
    load_alphabet(m, r);
    for i in 0..CONST_FORMS.len() {
        m.konst(i, i % NREG);
    }
    for a in 0..NREG {
        for f in 0..CONV_FORMS.len() {
            m.conv(f, a, a);
        }
    }
}

#[cfg(feature = "ark")]
pub const SQRT_IMPL: &str = "sqrt_ratio_zeta";
#[cfg(not(feature = "ark"))]
pub const SQRT_IMPL: &str = "non_arkworks_sqrt_ratio_zeta";
#[cfg(feature = "ark")]
pub fn sqrt_call(num: &Fq, den: &Fq) -> (bool, Fq) {
    Fq::sqrt_ratio_zeta(num, den)
}
#[cfg(not(feature = "ark"))]
pub fn sqrt_call(num: &Fq, den: &Fq) -> (bool, Fq) {
    Fq::non_arkworks_sqrt_ratio_zeta(num, den)
}
pub fn emit_sqrt(out: &mut dyn Write, num: &Fq, den: &Fq, kind: &str) {
    let ev = json!({"k":"sqrt","impl":SQRT_IMPL,"num":fq_bytes(num),"den":fq_bytes(den),"kind":kind});
    let res = guarded(|| sqrt_call(num, den));
    emit(out, finish(ev, res.map(|(f, y)| json!({"flag":f,"y":fq_bytes(&y)}))));
}

/// Replay a TLC-generated plan: one JSON object per line, each a sequence of steps
/// {"steps":[{op...}], ...}; execute on the real crate and print the observation of every
/// step next to the expectation carried by the plan.
pub fn replay(plan: &str, out: &mut dyn Write) {
    for (ln, line) in plan.lines().enumerate() {
        if line.trim().is_empty() {
            continue;
        }
        let v: Value = match serde_json::from_str(line) {
            Ok(v) => v,
            Err(_) => continue,
        };
        let mut sink: Vec<u8> = Vec::new();
        let mut results: Vec<Value> = Vec::new();
        {
            let mut m = Machine::new(&mut sink);
            let steps = v["steps"].as_array().cloned().unwrap_or_default();
            for st in steps.iter() {
                let op = st["op"].as_str().unwrap_or("");
                let a = st["a"].as_u64().unwrap_or(0) as usize;
                let b = st["b"].as_u64().unwrap_or(0) as usize;
                let dst = st["dst"].as_u64().unwrap_or(0) as usize;
                let form = st["form"].as_u64().unwrap_or(0) as usize;
                let bytes: Vec<u8> = st
                    .get("bytes")
                    .and_then(|x| serde_json::from_value(x.clone()).ok())
                    .unwrap_or_default();
                let mut got = json!({});
                match op {
                    "const" => m.konst(form, dst),
                    "torque" => m.torque(a, dst),
                    "rescale" => m.rescale(&fq_from(&bytes), a, dst),
                    "dec" => {
                        let r = guarded(|| {
                            if bytes.len() == 32 {
                                let n = DEC32_FORMS.len() + DECSLICE_FORMS.len();
                                let i = form % n;
                                if i < DEC32_FORMS.len() {
                                    (DEC32_FORMS[i].1)(&bytes)
                                } else {
                                    (DECSLICE_FORMS[i - DEC32_FORMS.len()].1)(&bytes)
                                }
                            } else {
                                (DECSLICE_FORMS[form % DECSLICE_FORMS.len()].1)(&bytes)
                            }
                        });
                        match r {
                            Ok(Ok(e)) => {
                                m.regs[dst] = e;
                                got = json!({"ok":true,"err":""});
                            }
                            Ok(Err(err)) => got = json!({"ok":false,"err":err}),
                            Err(p) => got = json!({"panic":p}),
                        }
                    }
                    "ell" => m.ell(&fq_from(&bytes), dst),
                    "add" | "sub" => {
                        // form indexes the forms of that op
                        let idxs: Vec<usize> = (0..BIN_FORMS.len()).filter(|i| BIN_FORMS[*i].0 == op).collect();
                        m.bin(idxs[form % idxs.len()], a, b, dst)
                    }
                    "neg" => m.neg(form, a, dst),
                    "dbl" => m.dbl(form, a, dst),
                    "mul" => m.mul(form, &bytes, a, dst),
                    "mulbig" => m.mulbig(form, &bytes, a, dst),
                    "conv" => m.conv(form, a, dst),
                    "sum" | "msm" => {
                        let srcs: Vec<usize> = st.get("srcs").and_then(|x| serde_json::from_value(x.clone()).ok()).unwrap_or_default();
                        let ks: Vec<Vec<u8>> = st.get("ks").and_then(|x| serde_json::from_value(x.clone()).ok()).unwrap_or_default();
                        if op == "sum" && !SUM_FORMS.is_empty() {
                            m.sum(form, &srcs, dst)
                        } else if op == "msm" && !MSM_FORMS.is_empty() {
                            m.msm(form, &ks, &srcs, dst)
                        } else {
                            // the minimal build has no iterator-sum / MSM entry points: the same value through the
                            // operators it does have
                            let v: Vec<Element> = srcs.iter().map(|i| m.regs[*i]).collect();
                            let r = guarded(|| {
                                let mut acc = Element::IDENTITY;
                                for (i, e) in v.iter().enumerate() {
                                    acc = if op == "sum" { acc + *e } else { acc + (MUL_FORMS[0].1)(*e, fr_from(&ks[i])) };
                                }
                                acc
                            });
                            if let Ok(e) = r {
                                m.regs[dst] = e;
                            }
                        }
                    }
                    "h2c" => {
                        let b2: Vec<u8> = st.get("bytes2").and_then(|x| serde_json::from_value(x.clone()).ok()).unwrap_or_default();
                        m.h2c(&fq_from(&bytes), &fq_from(&b2), dst)
                    }
                    "enc" => {
                        let bts = guarded(|| (ENC_FORMS[form % ENC_FORMS.len()].1)(m.regs[a]));
                        got = match bts {
                            Ok(b) => json!({"out":b}),
                            Err(p) => json!({"panic":p}),
                        };
                    }
                    "eq" => {
                        let o = guarded(|| (EQ_FORMS[form % EQ_FORMS.len()].1)(m.regs[a], m.regs[b]));
                        got = match o {
                            Ok(b) => json!({"out":b}),
                            Err(p) => json!({"panic":p}),
                        };
                    }
                    "isid" => {
                        let o = guarded(|| (ID_FORMS[form % ID_FORMS.len()].1)(m.regs[a]));
                        got = match o {
                            Ok(b) => json!({"out":b}),
                            Err(p) => json!({"panic":p}),
                        };
                    }
                    _ => got = json!({"unknown":op}),
                }
                // every step also reports the encoding of its destination register
                if matches!(op, "const" | "torque" | "rescale" | "dec" | "ell" | "add" | "sub" | "neg" | "dbl" | "mul" | "mulbig" | "conv" | "sum" | "msm" | "h2c") {
                    let e = m.regs[dst];
                    got["enc"] = json!(guarded(|| e.vartime_compress().0.to_vec()).unwrap_or_default());
                }
                results.push(got);
            }
        }
        emit(out, json!({"line":ln,"id":v["id"],"got":results,"build":BUILD}));
    }
}

#[allow(dead_code)]
pub fn unused(_r: &mut dyn RngCore) {}
