//! Conformance harness: drives the real decaf377 crate and writes one JSON event per
//! public call, after it returns (error and panic paths included).  The events are
//! validated by TLC against the TLA+ specification (spec/*Trace.tla); nothing here
//! decides a verdict about the library.
//!
//! usage: vharness record <suite> <n> [<arg>]      (seed from VERIF_SEED)
//!        vharness replay <plan.ndjson>
mod common;
mod curve;
mod field;
mod konst;
#[cfg(feature = "ark")]
mod ark_only;
#[cfg(feature = "ark")]
mod bls;

use std::io::Write;

fn main() {
    let args: Vec<String> = std::env::args().collect();
    if args.len() < 3 {
        eprintln!("usage: vharness record <suite> <n> | replay <plan>");
        std::process::exit(2);
    }
    // panics of the code under test are data (logged as events); keep stderr quiet
    std::panic::set_hook(Box::new(|_| {}));
    let seed: u64 = std::env::var("VERIF_SEED")
        .ok()
        .and_then(|s| s.parse().ok())
        .unwrap_or(1);
    let stdout = std::io::stdout();
    let mut out = std::io::BufWriter::new(stdout.lock());
    match args[1].as_str() {
        "record" => {
            let suite = args[2].as_str();
            let n: usize = args.get(3).and_then(|s| s.parse().ok()).unwrap_or(100);
            let arg = args.get(4).cloned().unwrap_or_default();
            let ok = curve::record(suite, n, seed, &arg, &mut out)
                || field::record(suite, n, seed, &arg, &mut out)
                || konst::record(suite, n, seed, &arg, &mut out)
                || ark_record(suite, n, seed, &arg, &mut out);
            if !ok {
                eprintln!("unknown suite {}", suite);
                std::process::exit(2);
            }
        }
        "replay" => {
            let plan = std::fs::read_to_string(&args[2]).expect("plan file");
            curve::replay(&plan, &mut out);
        }
        _ => std::process::exit(2),
    }
    out.flush().unwrap();
}

#[cfg(feature = "ark")]
fn ark_record(suite: &str, n: usize, seed: u64, arg: &str, out: &mut dyn Write) -> bool {
    ark_only::record(suite, n, seed, arg, out)
}
#[cfg(not(feature = "ark"))]
fn ark_record(_: &str, _: usize, _: u64, _: &str, _: &mut dyn Write) -> bool {
    false
}
