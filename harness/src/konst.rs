//! C17: dump every public constant of the build as a `konst` event (canonical integer,
//! little-endian bytes).  The equations they must satisfy live in spec/Constants.tla.
use crate::common::*;
use serde_json::json;
use std::io::Write;

/// a constant of field type must be stored in CANONICAL internal form: it compares equal (limb for limb) to the same
/// value parsed from its bytes, and behaves as that value under operations that do not renormalise (x - c + c, -(-c))
macro_rules! canon {
    ($F:ty, $name:expr, $c:expr) => {{
        let c: $F = $c;
        let re = <$F>::from_le_bytes_mod_order(&c.to_bytes_le());
        let x = <$F>::from(0x1234_5678_9abc_def1u64);
        let v: Vec<u8> = vec![(c == re) as u8, (re == c) as u8, (-(-c) == re) as u8, ((x - c) + re == x) as u8, (-c == -re) as u8];
        json!({"k":"konst","scope":"canon","name":$name,"val":v,"build":BUILD})
    }};
}

fn u(v: u32) -> Vec<u8> {
    vec![(v & 0xff) as u8, (v >> 8) as u8]
}

macro_rules! field_consts {
    ($fname:ident, $F:ty, $name:expr, $has_qnrt:expr) => {
        fn $fname(out: &mut dyn Write) {
            type F = $F;
            let mut canon_events: Vec<serde_json::Value> = Vec::new();
            let mut k = |name: &str, src: &str, val: Vec<u8>| {
                emit(out, json!({"k":"konst","scope":"field","field":$name,"name":name,"form":src,"val":val,"build":BUILD}));
            };
            k("MODULUS", "MODULUS_LIMBS", limbs_to_bytes(&F::MODULUS_LIMBS));
            k("MODULUS_MINUS_ONE_DIV_TWO", "MODULUS_MINUS_ONE_DIV_TWO_LIMBS", limbs_to_bytes(&F::MODULUS_MINUS_ONE_DIV_TWO_LIMBS));
            k("MODULUS_BIT_SIZE", "MODULUS_BIT_SIZE", u(F::MODULUS_BIT_SIZE));
            k("TRACE", "TRACE_LIMBS", limbs_to_bytes(&F::TRACE_LIMBS));
            k("TRACE_MINUS_ONE_DIV_TWO", "TRACE_MINUS_ONE_DIV_TWO_LIMBS", limbs_to_bytes(&F::TRACE_MINUS_ONE_DIV_TWO_LIMBS));
            k("TWO_ADICITY", "TWO_ADICITY", u(F::TWO_ADICITY));
            k("MULTIPLICATIVE_GENERATOR", "MULTIPLICATIVE_GENERATOR", F::MULTIPLICATIVE_GENERATOR.to_bytes_le().to_vec());
            k("TWO_ADIC_ROOT_OF_UNITY", "TWO_ADIC_ROOT_OF_UNITY", F::TWO_ADIC_ROOT_OF_UNITY.to_bytes_le().to_vec());
            k("FIELD_SIZE_POWER_OF_TWO", "FIELD_SIZE_POWER_OF_TWO", F::FIELD_SIZE_POWER_OF_TWO.to_bytes_le().to_vec());
            k("ZERO", "ZERO", F::ZERO.to_bytes_le().to_vec());
            k("ONE", "ONE", F::ONE.to_bytes_le().to_vec());
            k("ZERO", "default()", F::default().to_bytes_le().to_vec());
            canon_events.push(canon!(F, concat!($name, "::MULTIPLICATIVE_GENERATOR"), F::MULTIPLICATIVE_GENERATOR));
            canon_events.push(canon!(F, concat!($name, "::TWO_ADIC_ROOT_OF_UNITY"), F::TWO_ADIC_ROOT_OF_UNITY));
            canon_events.push(canon!(F, concat!($name, "::FIELD_SIZE_POWER_OF_TWO"), F::FIELD_SIZE_POWER_OF_TWO));
            canon_events.push(canon!(F, concat!($name, "::ONE"), F::ONE));
            canon_events.push(canon!(F, concat!($name, "::ZERO"), F::ZERO));
            #[cfg(feature = "ark")]
            {
                use ark_ff::{BigInteger, FftField, Field, PrimeField, SqrtPrecomputation};
                k("MODULUS", "PrimeField::MODULUS", <F as PrimeField>::MODULUS.to_bytes_le());
                k("MODULUS_MINUS_ONE_DIV_TWO", "PrimeField::MODULUS_MINUS_ONE_DIV_TWO", <F as PrimeField>::MODULUS_MINUS_ONE_DIV_TWO.to_bytes_le());
                k("MODULUS_BIT_SIZE", "PrimeField::MODULUS_BIT_SIZE", u(<F as PrimeField>::MODULUS_BIT_SIZE));
                k("TRACE", "PrimeField::TRACE", <F as PrimeField>::TRACE.to_bytes_le());
                k("TRACE_MINUS_ONE_DIV_TWO", "PrimeField::TRACE_MINUS_ONE_DIV_TWO", <F as PrimeField>::TRACE_MINUS_ONE_DIV_TWO.to_bytes_le());
                k("MULTIPLICATIVE_GENERATOR", "FftField::GENERATOR", <F as FftField>::GENERATOR.to_bytes_le().to_vec());
                k("TWO_ADICITY", "FftField::TWO_ADICITY", u(<F as FftField>::TWO_ADICITY));
                k("TWO_ADIC_ROOT_OF_UNITY", "FftField::TWO_ADIC_ROOT_OF_UNITY", <F as FftField>::TWO_ADIC_ROOT_OF_UNITY.to_bytes_le().to_vec());
                k("MODULUS", "Field::characteristic", limbs_to_bytes(<F as Field>::characteristic()));
                k("ZERO", "Field::ZERO", <F as Field>::ZERO.to_bytes_le().to_vec());
                k("ONE", "Field::ONE", <F as Field>::ONE.to_bytes_le().to_vec());
                k("ZERO", "Zero::zero", <F as ark_ff::Zero>::zero().to_bytes_le().to_vec());
                k("ONE", "One::one", <F as ark_ff::One>::one().to_bytes_le().to_vec());
                match <F as Field>::SQRT_PRECOMP {
                    Some(SqrtPrecomputation::TonelliShanks { two_adicity, quadratic_nonresidue_to_trace, trace_of_modulus_minus_one_div_two }) => {
                        k("SQRT_PRECOMP_KIND", "SQRT_PRECOMP", vec![1]);
                        k("TWO_ADICITY", "SQRT_PRECOMP.two_adicity", u(two_adicity));
                        k("QUADRATIC_NON_RESIDUE_TO_TRACE", "SQRT_PRECOMP.quadratic_nonresidue_to_trace", quadratic_nonresidue_to_trace.to_bytes_le().to_vec());
                        k("TRACE_MINUS_ONE_DIV_TWO", "SQRT_PRECOMP.trace_of_modulus_minus_one_div_two", limbs_to_bytes(trace_of_modulus_minus_one_div_two));
                    }
                    Some(SqrtPrecomputation::Case3Mod4 { modulus_plus_one_div_four }) => {
                        k("SQRT_PRECOMP_KIND", "SQRT_PRECOMP", vec![3]);
                        k("MODULUS_PLUS_ONE_DIV_FOUR", "SQRT_PRECOMP.modulus_plus_one_div_four", limbs_to_bytes(modulus_plus_one_div_four));
                    }
                    Some(_) => k("SQRT_PRECOMP_KIND", "SQRT_PRECOMP", vec![9]),
                    None => k("SQRT_PRECOMP_KIND", "SQRT_PRECOMP", vec![0]),
                }
            }
            for e in canon_events {
                emit(out, e);
            }
        }
    };
}
field_consts!(fq_consts, decaf377::Fq, "Fq", true);
field_consts!(fr_consts, decaf377::Fr, "Fr", false);
field_consts!(fp_consts, decaf377::Fp, "Fp", true);

pub fn record(suite: &str, _n: usize, _seed: u64, _arg: &str, out: &mut dyn Write) -> bool {
    if suite != "konst" {
        return false;
    }
    emit(out, json!({"k":"reset","build":BUILD}));
    fq_consts(out);
    fr_consts(out);
    fp_consts(out);
    {
        use decaf377::{Fp, Fq};
        let mut k = |field: &str, name: &str, src: &str, val: Vec<u8>| {
            emit(out, json!({"k":"konst","scope":"field","field":field,"name":name,"form":src,"val":val,"build":BUILD}));
        };
        k("Fq", "QUADRATIC_NON_RESIDUE_TO_TRACE", "QUADRATIC_NON_RESIDUE_TO_TRACE", Fq::QUADRATIC_NON_RESIDUE_TO_TRACE.to_bytes_le().to_vec());
        k("Fp", "QUADRATIC_NON_RESIDUE_TO_TRACE", "QUADRATIC_NON_RESIDUE_TO_TRACE", Fp::QUADRATIC_NON_RESIDUE_TO_TRACE.to_bytes_le().to_vec());
        k("Fp", "MINUS_ONE", "MINUS_ONE", Fp::MINUS_ONE.to_bytes_le().to_vec());
        k("Fp", "QUADRATIC_NON_RESIDUE", "QUADRATIC_NON_RESIDUE", Fp::QUADRATIC_NON_RESIDUE.to_bytes_le().to_vec());
    }
    // curve constants
    let mut canon_events: Vec<serde_json::Value> = Vec::new();
    {
        use decaf377::Element;
        let mut k = |name: &str, src: &str, val: Vec<u8>| {
            emit(out, json!({"k":"konst","scope":"curve","name":name,"form":src,"val":val,"build":BUILD}));
        };
        k("ZETA", "ZETA", decaf377::ZETA.to_bytes_le().to_vec());
        canon_events.push(canon!(decaf377::Fq, "ZETA", decaf377::ZETA));
        let g = Element::GENERATOR.verif_raw();
        for (i, c) in g.iter().enumerate() {
            canon_events.push(canon!(decaf377::Fq, format!("Element::GENERATOR coordinate {}", i), *c));
        }
        for (i, c) in Element::IDENTITY.verif_raw().iter().enumerate() {
            canon_events.push(canon!(decaf377::Fq, format!("Element::IDENTITY coordinate {}", i), *c));
        }
        let gen = |out: &mut dyn Write, src: &str, c: [decaf377::Fq; 4]| {
            // affine coordinates as the crate would compute them: X/Z, Y/Z
            let zi = c[2].inverse().unwrap();
            emit(out, json!({"k":"konst","scope":"generator","name":"GENERATOR","form":src,
                "x":(c[0]*zi).to_bytes_le().to_vec(),"y":(c[1]*zi).to_bytes_le().to_vec(),"build":BUILD}));
        };
        gen(out, "Element::GENERATOR", g);
        #[cfg(feature = "ark")]
        {
            use ark_ec::twisted_edwards::{MontCurveConfig, TECurveConfig};
            use ark_ec::{AffineRepr, CurveConfig, CurveGroup, Group};
            type Cfg = <Element as CurveGroup>::Config;
            let mut k = |name: &str, src: &str, val: Vec<u8>| {
                emit(out, json!({"k":"konst","scope":"curve","name":name,"form":src,"val":val,"build":BUILD}));
            };
            k("COEFF_A", "TECurveConfig::COEFF_A", <Cfg as TECurveConfig>::COEFF_A.to_bytes_le().to_vec());
            k("COEFF_D", "TECurveConfig::COEFF_D", <Cfg as TECurveConfig>::COEFF_D.to_bytes_le().to_vec());
            k("MONT_COEFF_A", "MontCurveConfig::COEFF_A", <Cfg as MontCurveConfig>::COEFF_A.to_bytes_le().to_vec());
            k("MONT_COEFF_B", "MontCurveConfig::COEFF_B", <Cfg as MontCurveConfig>::COEFF_B.to_bytes_le().to_vec());
            k("COFACTOR", "CurveConfig::COFACTOR", limbs_to_bytes(<Cfg as CurveConfig>::COFACTOR));
            k("COFACTOR_INV", "CurveConfig::COFACTOR_INV", <Cfg as CurveConfig>::COFACTOR_INV.to_bytes_le().to_vec());
            k("COEFF_A", "mul_by_a(1)", <Cfg as TECurveConfig>::mul_by_a(decaf377::Fq::ONE).to_bytes_le().to_vec());
            canon_events.push(canon!(decaf377::Fq, "TECurveConfig::COEFF_A", <Cfg as TECurveConfig>::COEFF_A));
            canon_events.push(canon!(decaf377::Fq, "TECurveConfig::COEFF_D", <Cfg as TECurveConfig>::COEFF_D));
            canon_events.push(canon!(decaf377::Fq, "MontCurveConfig::COEFF_A", <Cfg as MontCurveConfig>::COEFF_A));
            canon_events.push(canon!(decaf377::Fq, "MontCurveConfig::COEFF_B", <Cfg as MontCurveConfig>::COEFF_B));
            canon_events.push(canon!(decaf377::Fr, "CurveConfig::COFACTOR_INV", <Cfg as CurveConfig>::COFACTOR_INV));
            canon_events.push(canon!(decaf377::Fq, "TECurveConfig::GENERATOR.x", <Cfg as TECurveConfig>::GENERATOR.x));
            canon_events.push(canon!(decaf377::Fq, "TECurveConfig::GENERATOR.y", <Cfg as TECurveConfig>::GENERATOR.y));
            gen(out, "Group::generator", <Element as Group>::generator().verif_raw());
            let ga = <<Element as CurveGroup>::Affine as AffineRepr>::generator().verif_raw();
            gen(out, "AffineRepr::generator", [ga[0], ga[1], decaf377::Fq::ONE, ga[0] * ga[1]]);
            let gc = <Cfg as TECurveConfig>::GENERATOR;
            gen(out, "TECurveConfig::GENERATOR", [gc.x, gc.y, decaf377::Fq::ONE, gc.x * gc.y]);
            // BLS12-377
            use ark_ec::pairing::Pairing;
            use ark_ec::models::bls12::Bls12Config;
            type E = decaf377::Bls12_377;
            type G1C = <<E as Pairing>::G1Affine as AffineRepr>::Config;
            type G2C = <<E as Pairing>::G2Affine as AffineRepr>::Config;
            let mut kb = |name: &str, src: &str, val: Vec<u8>| {
                emit(out, json!({"k":"konst","scope":"bls","name":name,"form":src,"val":val,"build":BUILD}));
            };
            kb("G1_COFACTOR", "G1 CurveConfig::COFACTOR", limbs_to_bytes(<G1C as CurveConfig>::COFACTOR));
            kb("G1_COFACTOR_INV", "G1 CurveConfig::COFACTOR_INV", <G1C as CurveConfig>::COFACTOR_INV.to_bytes_le().to_vec());
            // h2 * h2^-1 computed with the crate's own Fq from both constants (the spec requires 1 mod q)
            let h2 = decaf377::Fq::from_le_bytes_mod_order(&limbs_to_bytes(<G2C as CurveConfig>::COFACTOR));
            kb("G2_COFACTOR_TIMES_INV", "G2 COFACTOR * COFACTOR_INV", (h2 * <G2C as CurveConfig>::COFACTOR_INV).to_bytes_le().to_vec());
            let _ = <ark_bls12_377::Config as Bls12Config>::X;
            // the extension tower: every Frobenius coefficient, one event each (they are validated in parallel)
            {
                use ark_ff::{Fp12Config, Fp2Config, Fp6Config};
                trait Cfg12 {
                    type C: ark_ff::Fp12Config;
                }
                impl<P: ark_ff::Fp12Config> Cfg12 for ark_ff::Fp12<P> {
                    type C = P;
                }
                type C12 = <<E as Pairing>::TargetField as Cfg12>::C;
                type C6 = <C12 as Fp12Config>::Fp6Config;
                type C2 = <C6 as Fp6Config>::Fp2Config;
                let mut kt = |out: &mut dyn Write, name: &str, i: usize, val: Vec<Vec<u8>>| {
                    emit(out, json!({"k":"reset","build":BUILD}));
                    emit(out, json!({"k":"konst","scope":"tower","name":name,"form":format!("{}[{}]", name, i),"i":i,"val":val,"build":BUILD}));
                };
                kt(out, "FP2_NONRESIDUE", 0, vec![C2::NONRESIDUE.to_bytes_le().to_vec()]);
                kt(out, "FP6_NONRESIDUE", 0, vec![C6::NONRESIDUE.c0.to_bytes_le().to_vec(), C6::NONRESIDUE.c1.to_bytes_le().to_vec()]);
                for (i, c) in C2::FROBENIUS_COEFF_FP2_C1.iter().enumerate() {
                    kt(out, "FROBENIUS_COEFF_FP2_C1", i, vec![c.to_bytes_le().to_vec()]);
                }
                for (i, c) in C6::FROBENIUS_COEFF_FP6_C1.iter().enumerate() {
                    kt(out, "FROBENIUS_COEFF_FP6_C1", i, vec![c.c0.to_bytes_le().to_vec(), c.c1.to_bytes_le().to_vec()]);
                }
                for (i, c) in C6::FROBENIUS_COEFF_FP6_C2.iter().enumerate() {
                    kt(out, "FROBENIUS_COEFF_FP6_C2", i, vec![c.c0.to_bytes_le().to_vec(), c.c1.to_bytes_le().to_vec()]);
                }
                for (i, c) in C12::FROBENIUS_COEFF_FP12_C1.iter().enumerate() {
                    kt(out, "FROBENIUS_COEFF_FP12_C1", i, vec![c.c0.to_bytes_le().to_vec(), c.c1.to_bytes_le().to_vec()]);
                }
            }
        }
    }
    emit(out, json!({"k":"reset","build":BUILD}));
    for e in canon_events {
        emit(out, e);
    }
    true
}
