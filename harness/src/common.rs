//! Shared helpers: RNG, byte/number generators, event emission, panic capture.
use rand_chacha::ChaCha20Rng;
use rand_core::{RngCore, SeedableRng};
use serde_json::{json, Value};
use std::io::Write;
use std::panic::{catch_unwind, AssertUnwindSafe};

pub const BUILD: &str = if cfg!(feature = "ark") { "ark" } else { "min" };

pub fn rng(seed: u64, stream: &str) -> ChaCha20Rng {
    let mut s = [0u8; 32];
    s[..8].copy_from_slice(&seed.to_le_bytes());
    for (i, b) in stream.bytes().enumerate().take(24) {
        s[8 + i] = b;
    }
    ChaCha20Rng::from_seed(s)
}

pub fn below(r: &mut ChaCha20Rng, n: usize) -> usize {
    (r.next_u64() % (n as u64)) as usize
}

pub fn rbytes(r: &mut ChaCha20Rng, n: usize) -> Vec<u8> {
    let mut v = vec![0u8; n];
    r.fill_bytes(&mut v);
    v
}

pub fn emit(out: &mut dyn Write, v: Value) {
    writeln!(out, "{}", v).unwrap();
}

/// Run `f`; on panic return the message.
pub fn guarded<T>(f: impl FnOnce() -> T) -> Result<T, String> {
    catch_unwind(AssertUnwindSafe(f)).map_err(|e| {
        if let Some(s) = e.downcast_ref::<&str>() {
            s.to_string()
        } else if let Some(s) = e.downcast_ref::<String>() {
            s.clone()
        } else {
            "panic".to_string()
        }
    })
}

/// Merge the result fields into the event, or mark it as a panic.
pub fn finish(mut ev: Value, res: Result<Value, String>) -> Value {
    match res {
        Ok(Value::Object(m)) => {
            for (k, v) in m {
                ev[k] = v;
            }
        }
        Ok(_) => {}
        Err(msg) => {
            ev["panic"] = json!(msg);
        }
    }
    ev
}

// ---- little-endian big numbers as byte vectors (only for generating inputs) ----
pub fn le_add_small(a: &[u8], k: u32) -> Vec<u8> {
    let mut out = a.to_vec();
    let mut c = k as u64;
    for b in out.iter_mut() {
        let s = *b as u64 + (c & 0xff);
        *b = s as u8;
        c = (c >> 8) + (s >> 8);
    }
    while c > 0 {
        out.push(c as u8);
        c >>= 8;
    }
    out
}
pub fn le_sub_small(a: &[u8], k: u32) -> Vec<u8> {
    let mut out = a.to_vec();
    let mut borrow = k as i64;
    for b in out.iter_mut() {
        let s = *b as i64 - (borrow & 0xff);
        borrow >>= 8;
        if s < 0 {
            *b = (s + 256) as u8;
            borrow += 1;
        } else {
            *b = s as u8;
        }
    }
    out
}
pub fn le_add(a: &[u8], b: &[u8]) -> Vec<u8> {
    let n = a.len().max(b.len());
    let mut out = Vec::with_capacity(n + 1);
    let mut c = 0u16;
    for i in 0..n {
        let s = *a.get(i).unwrap_or(&0) as u16 + *b.get(i).unwrap_or(&0) as u16 + c;
        out.push(s as u8);
        c = s >> 8;
    }
    if c > 0 {
        out.push(c as u8);
    }
    out
}
pub fn le_sub(a: &[u8], b: &[u8]) -> Vec<u8> {
    // a >= b assumed
    let mut out = Vec::with_capacity(a.len());
    let mut borrow = 0i16;
    for i in 0..a.len() {
        let mut s = a[i] as i16 - *b.get(i).unwrap_or(&0) as i16 - borrow;
        if s < 0 {
            s += 256;
            borrow = 1;
        } else {
            borrow = 0;
        }
        out.push(s as u8);
    }
    out
}
pub fn le_shr1(a: &[u8]) -> Vec<u8> {
    let mut out = a.to_vec();
    for i in 0..out.len() {
        let hi = if i + 1 < a.len() { a[i + 1] & 1 } else { 0 };
        out[i] = (a[i] >> 1) | (hi << 7);
    }
    out
}
pub fn le_pow2(k: usize, len: usize) -> Vec<u8> {
    let mut out = vec![0u8; len.max(k / 8 + 1)];
    out[k / 8] = 1 << (k % 8);
    out
}
pub fn le_less(a: &[u8], b: &[u8]) -> bool {
    let n = a.len().max(b.len());
    for i in (0..n).rev() {
        let x = *a.get(i).unwrap_or(&0);
        let y = *b.get(i).unwrap_or(&0);
        if x != y {
            return x < y;
        }
    }
    false
}
pub fn limbs_to_bytes(l: &[u64]) -> Vec<u8> {
    l.iter().flat_map(|x| x.to_le_bytes()).collect()
}
pub fn bytes_to_limbs(b: &[u8]) -> Vec<u64> {
    let mut v = b.to_vec();
    while v.len() % 8 != 0 {
        v.push(0);
    }
    v.chunks(8)
        .map(|c| u64::from_le_bytes(c.try_into().unwrap()))
        .collect()
}

pub const Q_LE: [u8; 32] = [
    1, 0, 0, 0, 0, 128, 17, 10, 1, 0, 0, 208, 254, 118, 170, 89, 1, 176, 55, 92, 30, 77, 180, 96,
    86, 165, 44, 154, 94, 101, 171, 18,
];
pub const R_LE: [u8; 32] = [255, 217, 63, 195, 154, 238, 90, 185, 254, 138, 60, 196, 175, 163, 147, 82, 0, 236, 13, 151, 71, 19, 45, 152, 85, 41, 139, 166, 87, 217, 170, 4];
pub const P_LE: [u8; 48] = [1, 0, 0, 0, 0, 192, 8, 133, 0, 0, 0, 48, 68, 93, 11, 23, 0, 72, 9, 186, 47, 98, 243, 30, 143, 19, 245, 0, 243, 217, 34, 26, 59, 73, 161, 108, 192, 5, 59, 198, 234, 16, 197, 23, 70, 58, 174, 1];

/// a reader that hands out at most `chunk` bytes per `read` call (a stream deserialiser must loop: `read_exact`)
pub struct Chunked<'a> {
    pub data: &'a [u8],
    pub pos: usize,
    pub chunk: usize,
}
impl<'a> Chunked<'a> {
    pub fn new(data: &'a [u8], chunk: usize) -> Self {
        Chunked { data, pos: 0, chunk: chunk.max(1) }
    }
}
impl<'a> std::io::Read for Chunked<'a> {
    fn read(&mut self, buf: &mut [u8]) -> std::io::Result<usize> {
        let n = buf.len().min(self.chunk).min(self.data.len() - self.pos);
        buf[..n].copy_from_slice(&self.data[self.pos..self.pos + n]);
        self.pos += n;
        Ok(n)
    }
}
/// a writer that accepts at most `chunk` bytes per `write` call (a serialiser must loop: `write_all`)
pub struct ShortWriter {
    pub buf: Vec<u8>,
    pub chunk: usize,
}
impl ShortWriter {
    pub fn new(chunk: usize) -> Self {
        ShortWriter { buf: Vec::new(), chunk: chunk.max(1) }
    }
}
impl std::io::Write for ShortWriter {
    fn write(&mut self, b: &[u8]) -> std::io::Result<usize> {
        let n = b.len().min(self.chunk);
        self.buf.extend_from_slice(&b[..n]);
        Ok(n)
    }
    fn flush(&mut self) -> std::io::Result<()> {
        Ok(())
    }
}
