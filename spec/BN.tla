------------------------------- MODULE BN -------------------------------
(***************************************************************************)
(* Natural numbers as little-endian byte sequences <<b1, ..., bn>>, the    *)
(* number sort of the "real" instantiation (TLC integers are 32 bit; the   *)
(* decaf377 fields are 251, 253 and 377 bit).  This is literally the wire  *)
(* format the properties speak about.                                      *)
(*                                                                         *)
(* The definitions below ARE the semantics.  TLC evaluates the operators   *)
(* whose names start with BN through the Java module override BN.class     *)
(* (java.math.BigInteger), exactly as it evaluates Naturals or Sequences;  *)
(* `tools/gen_bnref.py` renames this module to BNRef (no class file, so    *)
(* TLC interprets the bodies) and BNSelfTest.tla compares the two on edge  *)
(* and random operands at setup and at the start of every check.           *)
(*                                                                         *)
(* Length convention (part of the semantics, because equality of numbers   *)
(* is equality of sequences): every operator returns the value padded with *)
(* high zero bytes to a stated length L, or to the minimal length of the   *)
(* value if that is larger; the minimal length of 0 is 1.                  *)
(***************************************************************************)
EXTENDS Naturals, Sequences

BNMax(a, b) == IF a >= b THEN a ELSE b
BNPad(a, n) == [i \in 1..BNMax(n, Len(a)) |-> IF i <= Len(a) THEN a[i] ELSE 0]
RECURSIVE BNStripTo(_, _)
BNStripTo(a, n) == IF Len(a) > n /\ Len(a) > 1 /\ a[Len(a)] = 0
                   THEN BNStripTo(SubSeq(a, 1, Len(a) - 1), n) ELSE a
BNFit(a, n) == BNStripTo(BNPad(a, BNMax(n, 1)), BNMax(n, 1))

\* ---------------------------------------------------------------- add / sub
RECURSIVE BNAddR(_, _, _, _, _)
BNAddR(a, b, i, c, acc) ==
  IF i > Len(a) THEN Append(acc, c)
  ELSE LET s == a[i] + b[i] + c
           acc2 == Append(acc, s % 256)
       IN IF acc2 = acc2 THEN BNAddR(a, b, i + 1, s \div 256, acc2) ELSE acc
BNAdd(a, b) == LET n == BNMax(Len(a), Len(b))
               IN BNFit(BNAddR(BNPad(a, n), BNPad(b, n), 1, 0, <<>>), n)

RECURSIVE BNSubR(_, _, _, _, _)
BNSubR(a, b, i, c, acc) ==           \* c = borrow
  IF i > Len(a) THEN acc
  ELSE LET s == a[i] + 256 - b[i] - c
           acc2 == Append(acc, s % 256)
       IN IF acc2 = acc2 THEN BNSubR(a, b, i + 1, 1 - (s \div 256), acc2) ELSE acc
\* only defined for a >= b
BNSub(a, b) == LET n == BNMax(Len(a), Len(b))
               IN BNFit(BNSubR(BNPad(a, n), BNPad(b, n), 1, 0, <<>>), n)

\* ---------------------------------------------------------------- compare
RECURSIVE BNLessR(_, _, _)
BNLessR(a, b, i) == IF i = 0 THEN FALSE
                    ELSE IF a[i] < b[i] THEN TRUE
                    ELSE IF a[i] > b[i] THEN FALSE
                    ELSE BNLessR(a, b, i - 1)
BNLess(a, b) == LET n == BNMax(Len(a), Len(b)) IN BNLessR(BNPad(a, n), BNPad(b, n), n)

\* ---------------------------------------------------------------- multiply
RECURSIVE BNColR(_, _, _, _, _)
BNColR(a, b, k, i, acc) ==           \* sum of a[i+1]*b[k-i+1], 0-based column k
  IF i > k \/ i >= Len(a) THEN acc
  ELSE IF k - i >= Len(b) THEN BNColR(a, b, k, i + 1, acc)
  ELSE BNColR(a, b, k, i + 1, acc + a[i + 1] * b[k - i + 1])
RECURSIVE BNMulR(_, _, _, _, _)
BNMulR(a, b, k, c, acc) ==
  IF k >= Len(a) + Len(b) THEN acc
  ELSE LET s == BNColR(a, b, k, 0, 0) + c
           acc2 == Append(acc, s % 256)
       IN IF acc2 = acc2 THEN BNMulR(a, b, k + 1, s \div 256, acc2) ELSE acc
BNMul(a, b) == BNFit(BNMulR(a, b, 0, 0, <<>>), Len(a) + Len(b))

\* ---------------------------------------------------------------- bits
BNShr1(a) == BNFit([i \in 1..Len(a) |-> (a[i] \div 2) + (IF i < Len(a) THEN (a[i + 1] % 2) * 128 ELSE 0)], Len(a))
BNTwoPow(j) == CASE j = 0 -> 1 [] j = 1 -> 2 [] j = 2 -> 4 [] j = 3 -> 8
                 [] j = 4 -> 16 [] j = 5 -> 32 [] j = 6 -> 64 [] OTHER -> 128
BNBitAt(a, i) == (a[(i \div 8) + 1] \div BNTwoPow(i % 8)) % 2        \* 0-based bit index
RECURSIVE BNBitLenR(_, _)
BNBitLenR(a, n) == IF n = 0 THEN 0 ELSE IF BNBitAt(a, n - 1) = 1 THEN n ELSE BNBitLenR(a, n - 1)
BNBitLen(a) == BNBitLenR(a, 8 * Len(a))
\* little-endian bit sequence without high zero bits (<<>> for 0)
BNBits(a) == [i \in 1..BNBitLen(a) |-> BNBitAt(a, i - 1)]
BNPow2(k) == [i \in 1..((k \div 8) + 1) |-> IF i = (k \div 8) + 1 THEN BNTwoPow(k % 8) ELSE 0]

\* ---------------------------------------------------------------- mod / powmod
RECURSIVE BNModR(_, _, _, _)
BNModR(a, m, i, r) ==                \* i = number of bits still to bring down
  IF i = 0 THEN r
  ELSE LET r2 == BNAdd(BNAdd(r, r), <<BNBitAt(a, i - 1)>>)
           r3 == IF BNLess(r2, m) THEN r2 ELSE BNSub(r2, m)
       IN IF r3 = r3 THEN BNModR(a, m, i - 1, r3) ELSE r
\* only defined for m > 0
BNMod(a, m) == BNFit(BNModR(a, m, 8 * Len(a), <<0>>), Len(m))
RECURSIVE BNDivR(_, _, _, _, _)
BNDivR(a, m, i, r, q) ==             \* schoolbook bit-by-bit quotient
  IF i = 0 THEN q
  ELSE LET r2 == BNAdd(BNAdd(r, r), <<BNBitAt(a, i - 1)>>)
           ge == ~BNLess(r2, m)
           r3 == IF ge THEN BNSub(r2, m) ELSE r2
           q2 == BNAdd(BNAdd(q, q), <<IF ge THEN 1 ELSE 0>>)
       IN IF r3 = r3 /\ q2 = q2 THEN BNDivR(a, m, i - 1, r3, q2) ELSE q
\* floor(a / m), only defined for m > 0
BNDiv(a, m) == BNFit(BNDivR(a, m, 8 * Len(a), <<0>>, <<0>>), Len(a))

RECURSIVE BNPowR(_, _, _, _, _)
BNPowR(x, bits, m, i, acc) ==
  IF i = 0 THEN acc
  ELSE LET sq == BNMod(BNMul(acc, acc), m)
           nx == IF bits[i] = 1 THEN BNMod(BNMul(sq, x), m) ELSE sq
       IN IF nx = nx THEN BNPowR(x, bits, m, i - 1, nx) ELSE acc
\* x^e mod m, only defined for m > 0
BNPowMod(x, e, m) == LET bits == BNBits(e)
                     IN BNFit(BNPowR(BNMod(x, m), bits, m, Len(bits), BNMod(<<1>>, m)), Len(m))

\* ---------------------------------------------------------------- small conversions (not overridden)
RECURSIVE BNFromNat(_)
BNFromNat(n) == IF n < 256 THEN <<n>> ELSE <<n % 256>> \o BNFromNat(n \div 256)
BNOfLen(n, len) == BNFit(BNFromNat(n), len)
BNIsOdd(a) == Len(a) > 0 /\ a[1] % 2 = 1
BNIsZero(a) == \A i \in 1..Len(a) : a[i] = 0
BNEq(a, b) == LET n == BNMax(Len(a), Len(b)) IN BNPad(a, n) = BNPad(b, n)   \* numeric equality
IsBytes(b) == b \in Seq(0..255)
=============================================================================
