----------------------------- MODULE MC_Gadgets -----------------------------
(* Exhaustive toy model for C13/C14: every gadget input x EVERY hint pair      *)
(* (flag, y) in BOOLEAN x F_p, on toy curves.                                  *)
(*   soundness   : Sat(inputs, hint) => output = native result and native      *)
(*                 accepts, except for the one known hole of the isqrt block   *)
(*                 (den = 0, flag = TRUE, y = +-1), whose consequences are     *)
(*                 enumerated exactly (decode of s = -1);                      *)
(*   completeness: with the honest hint the block is satisfied iff the native  *)
(*                 operation succeeds, and the outputs agree.                  *)
(* Also the lazy-variable state machine: every forcing sequence.               *)
EXTENDS Gadgets, IntOps, FiniteSets
CONSTANTS Mode, R
Fp == 0..(P - 1)
ASSUME TLCSet(1, {pt \in Fp \X Fp : OnCurve(pt)})
Curve == TLCGet(1)
ASSUME TLCSet(2, {EAdd(pt, pt) : pt \in Curve})
TwoE == TLCGet(2)
Honest(den) == SqrtRatio(NOne, den)

\* the isqrt block: the set of satisfying hints that violate the contract is EXACTLY the known hole
ASSUME TLCSet(3, {h \in Fp \X BOOLEAN \X Fp : SatIsqrt(h[1], h[2], h[3]) /\ ~IsqrtSound(h[1], h[2], h[3])})
IsqrtHoles == TLCGet(3)
ASSUME IsqrtHoles = {<<0, TRUE, 1>>, <<0, TRUE, P - 1>>}
ASSUME \A den \in Fp : SatIsqrt(den, Honest(den)[1], Honest(den)[2])              \* completeness

VARIABLES phase, s, flag, y, pt
vars == <<phase, s, flag, y, pt>>
Init == phase = "init" /\ s = 0 /\ flag = FALSE /\ y = 0 /\ pt = EId
Next == /\ phase = "init" /\ phase' = "chk"
        /\ s' \in Fp /\ flag' \in BOOLEAN /\ y' \in Fp
        /\ IF Mode = "compress" THEN pt' \in TwoE /\ s' = 0 ELSE pt' = pt

InvDecode == (phase = "chk" /\ Mode = "decode") =>
  /\ SatDecode(s, flag, y) =>
       \/ DecodeSound(s, OutDecode(s, y))
       \/ (s = P - 1 /\ IsqrtHole(DecodeDen(s), flag, y) /\ DecodeSpec(s) = NoPoint)     \* the known finding, nothing else
  /\ LET h == Honest(DecodeDen(s)) IN                                                      \* completeness with honest hints
       /\ SatDecode(s, h[1], h[2]) <=> (DecodeSpec(s) # NoPoint)
       /\ SatDecode(s, h[1], h[2]) => DecodeSound(s, OutDecode(s, h[2]))
       /\ SatDecode(s, h[1], FNeg(h[2])) => DecodeSound(s, OutDecode(s, FNeg(h[2])))       \* root sign is irrelevant
InvCompress == (phase = "chk" /\ Mode = "compress") =>
  /\ SatCompress(pt, flag, y) => OutCompress(pt, y) = EncodeSpec(pt)                       \* the hole is harmless here
  /\ LET h == Honest(CompressDen(pt)) IN SatCompress(pt, h[1], h[2]) /\ OutCompress(pt, h[2]) = EncodeSpec(pt)
InvElligator == (phase = "chk" /\ Mode = "elligator") =>
  /\ SatElligator(s, flag, y) => SameElement(ElligatorSpec(s), OutElligator(s, flag, y))
  /\ LET h == Honest(EllParts(s, TRUE, 0).x) IN
       /\ SatElligator(s, h[1], h[2]) /\ SameElement(ElligatorSpec(s), OutElligator(s, h[1], h[2]))
  /\ EllParts(s, TRUE, 0).x # NZero                                                       \* the hole is unreachable: num*den # 0
=============================================================================
