---------------------------- MODULE ConstTrace ----------------------------
(* Trace specification for C17: one `konst` event per public constant per     *)
(* build; the space is the finite list of constants (exhaustive).             *)
EXTENDS Constants, BN, RealParams, Json, IOUtils
BNIdent(b) == b
BNToBytes(n, len) == BNPad(BNStripTo(n, 1), len)
RealFields == {"Fq", "Fr", "Fp"}
RealModulus(f) == CASE f = "Fq" -> QReal [] f = "Fr" -> RReal [] f = "Fp" -> PReal
RealByteLen(f) == IF f = "Fp" THEN 48 ELSE 32
\* prime factors of p - 1: complete for Fr and Fq (q - 1 = x^2 (x-1)(x+1)); for Fp only the known small ones
\* (the 288-bit cofactor of p - 1 is composite and unfactored); "order": r; "blsx": the BLS parameter x
RealFactors(f) ==
  CASE f = "Fr" -> << <<2>>, BNFromNat(1553), BNFromNat(1282495723), <<115,85,59,21,199,3>>, Fr5 >>
    [] f = "Fq" -> << <<2>>, <<3>>, <<5>>, <<7>>, <<13>>, BNFromNat(499), FqBig1, BlsXReal >>
    [] f = "Fp" -> << <<2>>, <<3>>, <<7>>, <<13>>, <<53>>, BNFromNat(409), BNFromNat(499), BNFromNat(2557) >>
    [] f = "order" -> << RReal >>
    [] f = "blsx" -> << BlsXReal >>
RealGenerator(f) == CASE f = "Fq" -> 22 [] f = "Fr" -> 5 [] f = "Fp" -> 15

Rec == ndJsonDeserialize(IOEnv.TRACE)
VARIABLES l, seen
Has(e, f) == f \in DOMAIN e
IsEvent(kind) == l <= Len(Rec) /\ Rec[l].k = kind /\ ~Has(Rec[l], "force") /\ ~Has(Rec[l], "panic") /\ l' = l + 1
CInit == l = 1 /\ seen = {}
TReset == IsEvent("reset") /\ UNCHANGED seen
TKonst == IsEvent("konst") /\ LET e == Rec[l] IN
            /\ CASE e.scope = "field" -> FieldKonstOK(e.field, e.name, e.val)
                 [] e.scope = "curve" -> CurveKonstOK(e.name, e.val)
                 [] e.scope = "bls" -> BlsKonstOK(e.name, e.val)
                 [] e.scope = "tower" -> TowerKonstOK(e.name, e.i, e.val)
                 [] e.scope = "generator" -> NLess(e.x, P) /\ NLess(e.y, P) /\ GeneratorOK(e.x, e.y)
                 \* the constant is stored in canonical internal form (equal, limb for limb, to the same value parsed from
                 \* its bytes; behaves as that value under operations that do not renormalise)
                 [] e.scope = "canon" -> e.val = <<1, 1, 1, 1, 1>>
                 [] OTHER -> FALSE
            /\ seen' = seen \cup {<<e.scope, e.name>>}
TForce == l <= Len(Rec) /\ Has(Rec[l], "force") /\ l' = l + 1 /\ UNCHANGED seen
CNext == TReset \/ TKonst \/ TForce
CSpec == CInit /\ [][CNext]_<<l, seen>>
TraceAccepted ==
  LET d == TLCGet("stats").diameter IN
  IF d - 1 = Len(Rec) THEN TRUE ELSE Print(<<"TRACE-REJECTED", d>>, FALSE)
=============================================================================
