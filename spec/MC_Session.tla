----------------------------- MODULE MC_Session -----------------------------
(* Bounded exhaustive exploration of the API state machine (Session.tla) on a  *)
(* toy curve: two registers, EVERY action with EVERY argument, both coset      *)
(* members for every produced element, arbitrary interleavings up to MaxSteps. *)
(* The invariants hold in every reachable state, i.e. for every element        *)
(* obtainable from constants, decoding, hash-to-group and arbitrary sequences  *)
(* of group operations, in any representative (C01, C03, C04, C05, C06, C08).  *)
(* Hash observations are kept out of the state space (VIEW).                   *)
EXTENDS Session, IntOps, FiniteSets
CONSTANTS MaxSteps, R
VARIABLE steps
Fp == 0..(P - 1)
ASSUME TLCSet(1, {pt \in Fp \X Fp : OnCurve(pt)})
Curve == TLCGet(1)
ASSUME TLCSet(2, {EAdd(pt, pt) : pt \in Curve})
TwoE == TLCGet(2)
ASSUME TLCSet(3, [q \in TwoE |-> EncodeSpec(q)])
EncTab == TLCGet(3)
ToyForms == {"f", "e"}
ToyRegs == {0, 1}
Strings1 == {<<b>> : b \in 0..255}                      \* every byte string of the encoding length (EncLen = 1)
MInit == SInit /\ steps = 0
Step(Act) == steps < MaxSteps /\ steps' = steps + 1 /\ Act
MNext ==
  \/ \E n \in {"IDENTITY", "default"} : \E d \in Regs : Step(Const(n, d))   \* (decode(8) need not exist on a toy curve: generators come from Decode)
  \/ \E b \in Strings1 : \E d \in Regs : Step(Decode("e", b, d))
  \/ \E r0 \in Fp : \E d \in Regs : Step(Elligator(r0, d))
  \/ \E op \in {"add", "sub"} : \E a \in Regs : \E b \in Regs : \E d \in Regs : Step(Bin(op, "f", a, b, d))
  \/ \E a \in Regs : \E d \in Regs : Step(Neg("f", a, d))
  \/ \E a \in Regs : \E d \in Regs : Step(Dbl("f", a, d))
  \/ \E a \in Regs : \E d \in Regs : Step(TorqueOp(a, d))
  \/ \E k \in {0, 1, 2, R - 1, R, R + 1} : \E a \in Regs : \E d \in Regs : Step(Mul("f", k, a, d))
  \/ \E a \in Regs : Step(Encode("f", a))
  \/ \E a \in Regs : \E b \in Regs : Step(ObsEq("f", a, b))
  \/ \E a \in Regs : Step(ObsIsIdentity("f", a))
MSpec == MInit /\ [][MNext]_<<svars, steps>>
view == <<reg, obs>>
\* observations agree with the coset relation
InvObs ==
  /\ (obs.k = "enc") => \E i \in Regs : obs.out = NToBytes(EncTab[reg[i]], EncLen)
  /\ (obs.k = "dec" /\ ~obs.ok) => obs.err = "InvalidEncoding"
InvAll == InvValid /\ InvRoundTrip /\ InvOrder /\ InvEqIsCoset /\ InvObs /\ (\A i \in Regs : reg[i] \in TwoE)
=============================================================================
