------------------------------ MODULE IntOps ------------------------------
(* The number sort of the toy instantiation: native TLC integers.  Bound to *)
(* the number-operator constants of ModArith in the .cfg of every toy run.  *)
EXTENDS Naturals, Sequences
IntAdd(a, b) == a + b
IntSub(a, b) == a - b
IntMul(a, b) == a * b
IntMod(a, m) == a % m
IntDiv(a, m) == a \div m
IntLess(a, b) == a < b
IntShr1(a) == a \div 2
IntIsOdd(a) == a % 2 = 1
RECURSIVE IntBits(_)
IntBits(n) == IF n = 0 THEN <<>> ELSE <<n % 2>> \o IntBits(n \div 2)
RECURSIVE IntPowMod(_, _, _)
IntPowMod(x, e, m) == IF e = 0 THEN 1 % m
                      ELSE LET h == IntPowMod(x, e \div 2, m)
                               h2 == (h * h) % m
                           IN IF e % 2 = 1 THEN (h2 * (x % m)) % m ELSE h2
RECURSIVE IntPow2(_)
IntPow2(k) == IF k = 0 THEN 1 ELSE 2 * IntPow2(k - 1)
\* bytes <-> number (little endian)
RECURSIVE IntFromBytes(_)
IntFromBytes(b) == IF b = <<>> THEN 0 ELSE Head(b) + 256 * IntFromBytes(Tail(b))
IntToBytes(n, len) == [i \in 1..len |-> (n \div IntPow2(8 * (i - 1))) % 256]
IntFromNat(n) == n
=============================================================================
