----------------------------- MODULE PrimeField -----------------------------
(* L0: the prime field F_P.  Zeta is a fixed quadratic non-residue (ZETA of  *)
(* the crate), TwoAdicity = s with P - 1 = 2^s * t, t odd.                   *)
EXTENDS ModArith
CONSTANTS P, Zeta, TwoAdicity

NZero == MZero(P)
NOne  == MOne(P)
FAdd(a, b) == MAdd(P, a, b)
FMul(a, b) == MMul(P, a, b)
FNeg(a)    == MNeg(P, a)
FSub(a, b) == MSub(P, a, b)
FSq(a)     == MMul(P, a, a)
FTwo       == FAdd(NOne, NOne)
FPow(x, e) == NPowMod(x, e, P)
FInv(x)    == MInv(P, x)
FDiv(a, b) == MDiv(P, a, b)
FOfNat(n)  == NMod(NFromNat(n), P)
IsSquare(x) == MIsSquare(P, x)
\* "negative" = odd canonical representative (src/sign.rs)
IsNeg(a)   == NIsOdd(a)
FAbs(a)    == IF IsNeg(a) THEN FNeg(a) ELSE a

PM1 == NSub(P, NFromNat(1))
RECURSIVE ShrK(_, _)
ShrK(n, k) == IF k = 0 THEN n ELSE ShrK(NShr1(n), k - 1)
ASSUME TLCSet(11, ShrK(PM1, TwoAdicity))
TraceT == TLCGet(11)                                   \* t = (P-1)/2^s
ASSUME TLCSet(12, FPow(Zeta, TraceT))
ZetaToTrace == TLCGet(12)                              \* generator of the 2-Sylow subgroup

SqK(x, k) == NPowMod(x, NPow2(k), P)                   \* x^(2^k)
RECURSIVE TSLoop(_, _, _, _, _)
TSLoop(i, z, t, b, c) ==                               \* Tonelli-Shanks main loop
  IF i < 2 THEN z
  ELSE LET bb == SqK(b, i - 2)
           flag == bb # NOne
           z2 == IF flag THEN FMul(z, c) ELSE z
           c2 == FSq(c)
           t2 == IF flag THEN FMul(t, c2) ELSE t
       IN IF z2 = z2 /\ c2 = c2 /\ t2 = t2 THEN TSLoop(i - 1, z2, t2, t2, c2) ELSE z
\* some square root of a square x (meaningless on non-squares)
FSqrt(x) ==
  LET z0 == NPowMod(x, NShr1(TraceT), P)
      t0 == FMul(FSq(z0), x)
      z1 == FMul(z0, x)
  IN TSLoop(TwoAdicity, z1, t0, t0, ZetaToTrace)
\* the non-negative square root ("xsqrt" of ristretto.sage)
XSqrt(x) == FAbs(FSqrt(x))

\* The four-case contract of sqrt_ratio_zeta as a predicate on an observed result
SqrtRatioOK(num, den, flag, y) ==
  IF num = NZero THEN flag = TRUE /\ y = NZero
  ELSE IF den = NZero THEN flag = FALSE /\ y = NZero
  ELSE IF flag THEN FMul(FSq(y), den) = num
       ELSE FMul(FSq(y), den) = FMul(Zeta, num)
\* ... and one function satisfying it
SqrtRatio(num, den) ==
  IF num = NZero THEN <<TRUE, NZero>>
  ELSE IF den = NZero THEN <<FALSE, NZero>>
  ELSE LET x == FDiv(num, den) IN
       IF IsSquare(x) THEN <<TRUE, FSqrt(x)>> ELSE <<FALSE, FSqrt(FMul(Zeta, x))>>
\* the other one (opposite root sign): outputs of the L2 algorithms must not depend on the choice
SqrtRatioNeg(num, den) == LET r == SqrtRatio(num, den) IN <<r[1], FNeg(r[2])>>
=============================================================================
