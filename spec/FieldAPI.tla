------------------------------ MODULE FieldAPI ------------------------------
(* The API state machine of the three prime fields Fq, Fr, Fp (C10, C11,     *)
(* field half of C09).  A field element is its canonical integer in [0, p);  *)
(* every action computes the observable result of one public call form from  *)
(* integer arithmetic modulo the field's prime.  State: the last observation *)
(* and the set of (field, value, hash) seen (hash coherence).                *)
(* Operands of arithmetic events are given by their canonical bytes as the   *)
(* library serialises them; the conversion events tie that serialisation to  *)
(* integers chosen by the harness before they ever enter the library.        *)
EXTENDS ModArith
CONSTANTS FieldNames,          \* {"Fq", "Fr", "Fp"}
          Modulus(_),          \* field name -> prime (number of the sort)
          ByteLen(_),          \* field name -> N_8
          BitLen(_),           \* field name -> modulus bit size
          FForms               \* admissible form names

VARIABLES fobs, fhseen
fvars == <<fobs, fhseen>>
FInit == fobs = [k |-> "init"] /\ fhseen = {}

Canon(f, a) == Len(a) = ByteLen(f) /\ IsCanon(Modulus(f), NFromBytes(a))
Val(f, a) == NMod(NFromBytes(a), Modulus(f))
Bytes(f, v) == NToBytes(v, ByteLen(f))
OutV(f, v) == [out |-> Bytes(f, v)]

\* ---- arithmetic (C10) -----------------------------------------------------
BinVal(f, op, a, b) ==
  LET m == Modulus(f) IN
  CASE op = "add" -> MAdd(m, Val(f, a), Val(f, b))
    [] op = "sub" -> MSub(m, Val(f, a), Val(f, b))
    [] op = "mul" -> MMul(m, Val(f, a), Val(f, b))
    [] op = "div" -> MDiv(m, Val(f, a), Val(f, b))
FBin(f, op, form, a, b) ==
  /\ f \in FieldNames /\ form \in FForms /\ op \in {"add", "sub", "mul", "div"}
  /\ Canon(f, a) /\ Canon(f, b)
  /\ op = "div" => Val(f, b) # MZero(Modulus(f))          \* division by zero is not a call the API defines
  /\ fobs' = OutV(f, BinVal(f, op, a, b)) /\ UNCHANGED fhseen
UnVal(f, op, a) ==
  LET m == Modulus(f) IN
  CASE op = "neg" -> MNeg(m, Val(f, a))
    [] op = "square" -> MSq(m, Val(f, a))
    [] op = "double" -> MAdd(m, Val(f, a), Val(f, a))
    [] op = "inverse" -> MInv(m, Val(f, a))
    [] op = "id" -> Val(f, a)
FUn(f, op, form, a) ==
  /\ f \in FieldNames /\ form \in FForms /\ Canon(f, a)
  /\ fobs' = IF op = "inverse" /\ Val(f, a) = MZero(Modulus(f))
             THEN [none |-> TRUE]                           \* the inverse of zero is absent
             ELSE [none |-> FALSE, out |-> Bytes(f, UnVal(f, op, a))]
  /\ UNCHANGED fhseen
\* exponent: an integer of any length (little-endian bytes of the u64 limbs)
FPowA(f, form, a, e) ==
  /\ f \in FieldNames /\ form \in FForms /\ Canon(f, a)
  /\ fobs' = OutV(f, MPow(Modulus(f), Val(f, a), e)) /\ UNCHANGED fhseen
RECURSIVE FoldVals(_, _, _, _, _)
FoldVals(f, op, xs, i, acc) ==
  IF i > Len(xs) THEN acc
  ELSE LET nx == IF op = "sum" THEN MAdd(Modulus(f), acc, Val(f, xs[i])) ELSE MMul(Modulus(f), acc, Val(f, xs[i]))
       IN IF nx = nx THEN FoldVals(f, op, xs, i + 1, nx) ELSE acc
FFold(f, op, form, xs) ==
  /\ f \in FieldNames /\ form \in FForms /\ op \in {"sum", "product"}
  /\ \A i \in 1..Len(xs) : Canon(f, xs[i])
  /\ fobs' = OutV(f, FoldVals(f, op, xs, 1, IF op = "sum" THEN MZero(Modulus(f)) ELSE MOne(Modulus(f))))
  /\ UNCHANGED fhseen
\* constant-time selection returns exactly one of its operands: a when choice = 0, b when choice = 1
FSelect(f, a, b, choice) ==
  /\ Canon(f, a) /\ Canon(f, b) /\ choice \in {0, 1}
  /\ fobs' = OutV(f, IF choice = 1 THEN Val(f, b) ELSE Val(f, a)) /\ UNCHANGED fhseen
FEq(f, form, a, b) ==
  /\ form \in FForms /\ Canon(f, a) /\ Canon(f, b)
  /\ fobs' = [out |-> (Val(f, a) = Val(f, b))] /\ UNCHANGED fhseen
\* From<u8 ... u128, bool>: v is the integer as little-endian bytes
FFromInt(f, ty, v) == fobs' = OutV(f, NMod(NFromBytes(v), Modulus(f))) /\ UNCHANGED fhseen
\* Euler's criterion / square roots (C09, field half)
FLegendre(f, a) == Canon(f, a) /\ fobs' = [out |-> MLegendre(Modulus(f), Val(f, a))] /\ UNCHANGED fhseen
\* sqrt: present iff a is a square; any root is acceptable
FSqrtOK(f, a, some, y) ==
  /\ Canon(f, a) /\ some = MIsSquare(Modulus(f), Val(f, a))
  /\ some => (Canon(f, y) /\ MSq(Modulus(f), Val(f, y)) = Val(f, a))
  /\ fobs' = [k |-> "sqrt"] /\ UNCHANGED fhseen

\* ---- encodings and conversions (C11) ---------------------------------------
\* serialisation of the element whose integer value is v (v chosen by the harness, any length)
FSerialize(f, form, v) == form \in FForms /\ fobs' = OutV(f, NMod(NFromBytes(v), Modulus(f))) /\ UNCHANGED fhseen
\* checked parsing: exactly the integers below p, given in exactly ByteLen bytes
FParse(f, form, b) ==
  /\ form \in FForms
  /\ fobs' = IF Len(b) = ByteLen(f) /\ IsCanon(Modulus(f), NFromBytes(b))
             THEN [ok |-> TRUE, out |-> b] ELSE [ok |-> FALSE, out |-> <<>>]
  /\ UNCHANGED fhseen
Reverse(s) == [i \in 1..Len(s) |-> s[Len(s) + 1 - i]]
\* reduction of a byte string of any length, either endianness
FReduce(f, form, endian, b) ==
  /\ form \in FForms /\ endian \in {"le", "be"}
  /\ fobs' = OutV(f, NMod(NFromBytes(IF endian = "le" THEN b ELSE Reverse(b)), Modulus(f)))
  /\ UNCHANGED fhseen
\* flag types of ark-serialize / ark-ec: number of flag bits and the admissible masks
FlagBits(ty) == CASE ty = "Empty" -> 0 [] ty = "TE" -> 1 [] ty = "SW" -> 2
FlagMasks(ty) == CASE ty = "Empty" -> {0} [] ty = "TE" -> {0, 128} [] ty = "SW" -> {0, 64, 128}
SerLen(f, ty) == (BitLen(f) + FlagBits(ty) + 7) \div 8
FSerFlags(f, ty, a, mask) ==
  /\ Canon(f, a) /\ mask \in FlagMasks(ty)
  /\ fobs' = [out |-> IF SerLen(f, ty) = ByteLen(f)
                      THEN [i \in 1..ByteLen(f) |-> IF i = ByteLen(f) THEN a[i] + mask ELSE a[i]]
                      ELSE a \o <<mask>>]
  /\ UNCHANGED fhseen
\* deserialisation with flags of exactly SerLen bytes: flags from the top bits of the last byte
TopMask(ty, top) == CASE ty = "Empty" -> 0 [] ty = "TE" -> (top \div 128) * 128 [] ty = "SW" -> (top \div 64) * 64
FDeserFlags(f, ty, b) ==
  /\ Len(b) = SerLen(f, ty) /\ SerLen(f, ty) = ByteLen(f)
  /\ LET top == b[Len(b)]
         mask == TopMask(ty, top)
         body == [i \in 1..Len(b) |-> IF i = Len(b) THEN top - mask ELSE b[i]]
     IN fobs' = IF ty = "SW" /\ mask = 192 THEN [ok |-> FALSE, err |-> "UnexpectedFlags"]
                ELSE IF ~IsCanon(Modulus(f), NFromBytes(body)) THEN [ok |-> FALSE, err |-> "InvalidData"]
                ELSE [ok |-> TRUE, err |-> "", out |-> body, mask |-> mask]
  /\ UNCHANGED fhseen
\* decimal strings: digits most significant first
RECURSIVE Horner(_, _, _, _)
Horner(m, ds, i, acc) == IF i > Len(ds) THEN acc
                         ELSE LET nx == MAdd(m, MMul(m, acc, NFromNat(10)), NFromNat(ds[i]))
                              IN IF nx = nx THEN Horner(m, ds, i + 1, nx) ELSE acc
FFromStr(f, ds) == (\A i \in 1..Len(ds) : ds[i] \in 0..9) /\ fobs' = OutV(f, Horner(Modulus(f), ds, 1, MZero(Modulus(f)))) /\ UNCHANGED fhseen
\* Display: the decimal digits of the canonical value, no leading zeros (zero prints as the empty string, as in ark-ff)
RECURSIVE HornerInt(_, _, _)
HornerInt(ds, i, acc) == IF i > Len(ds) THEN acc
                         ELSE LET nx == NAdd(NMul(acc, NFromNat(10)), NFromNat(ds[i])) IN IF nx = nx THEN HornerInt(ds, i + 1, nx) ELSE acc
FDisplayOK(f, a, ds) ==
  /\ Canon(f, a) /\ (\A i \in 1..Len(ds) : ds[i] \in 0..9)
  /\ (Len(ds) > 0 => ds[1] # 0)
  /\ NEq(HornerInt(ds, 1, NFromNat(0)), NFromBytes(a))
  /\ fobs' = [k |-> "display"] /\ UNCHANGED fhseen
\* ordering is integer ordering
FCmp(f, a, b) ==
  /\ Canon(f, a) /\ Canon(f, b)
  /\ fobs' = [out |-> IF NLess(NFromBytes(a), NFromBytes(b)) THEN -1 ELSE IF a = b THEN 0 ELSE 1]
  /\ UNCHANGED fhseen
FHash(f, a, h) ==
  /\ Canon(f, a)
  /\ \A t \in fhseen : (t[1] = f /\ t[2] = a) => t[3] = h
  /\ fhseen' = fhseen \cup {<<f, a, h>>} /\ fobs' = [k |-> "hash"]
=============================================================================
