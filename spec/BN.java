import java.math.BigInteger;
import tlc2.value.impl.*;

/** TLC module override for BN.tla: evaluator for the byte-sequence naturals.
 *  The TLA+ definitions in BN.tla are the semantics; BNSelfTest.tla compares
 *  this evaluator with them (through BNRef.tla) on edge and random operands. */
public class BN {
  static BigInteger toBig(Value v) {
    Value[] e = ((TupleValue) v.toTuple()).elems;
    byte[] be = new byte[e.length + 1];
    for (int i = 0; i < e.length; i++) {
      int b = ((IntValue) e[i]).val;
      if (b < 0 || b > 255) throw new RuntimeException("BN: element not a byte: " + b);
      be[e.length - i] = (byte) b;
    }
    return new BigInteger(be);
  }
  static Value fromBig(BigInteger x, int len) {
    if (x.signum() < 0) throw new RuntimeException("BN: negative result");
    byte[] be = x.toByteArray();
    int n = be.length;
    int start = (n > 1 && be[0] == 0) ? 1 : 0;
    int m = n - start;
    if (len < m) len = m;
    Value[] out = new Value[len];
    for (int i = 0; i < len; i++) {
      int idx = n - 1 - i;
      out[i] = IntValue.gen(idx >= start ? (be[idx] & 0xff) : 0);
    }
    return new TupleValue(out);
  }
  static int len(Value v) { return ((TupleValue) v.toTuple()).elems.length; }
  public static Value BNAdd(Value a, Value b) { return fromBig(toBig(a).add(toBig(b)), Math.max(len(a), len(b))); }
  public static Value BNSub(Value a, Value b) { return fromBig(toBig(a).subtract(toBig(b)), Math.max(len(a), len(b))); }
  public static Value BNMul(Value a, Value b) { return fromBig(toBig(a).multiply(toBig(b)), len(a) + len(b)); }
  public static Value BNMod(Value a, Value m) { return fromBig(toBig(a).mod(toBig(m)), len(m)); }
  public static Value BNDiv(Value a, Value m) { return fromBig(toBig(a).divide(toBig(m)), len(a)); }
  public static Value BNLess(Value a, Value b) { return toBig(a).compareTo(toBig(b)) < 0 ? BoolValue.ValTrue : BoolValue.ValFalse; }
  public static Value BNShr1(Value a) { return fromBig(toBig(a).shiftRight(1), len(a)); }
  public static Value BNBits(Value a) {
    BigInteger x = toBig(a); int n = x.bitLength(); Value[] out = new Value[n];
    for (int i = 0; i < n; i++) out[i] = IntValue.gen(x.testBit(i) ? 1 : 0);
    return new TupleValue(out);
  }
  public static Value BNPowMod(Value x, Value e, Value m) { return fromBig(toBig(x).modPow(toBig(e), toBig(m)), len(m)); }
  public static Value BNPow2(Value k) { int kk = ((IntValue) k).val; return fromBig(BigInteger.ONE.shiftLeft(kk), kk / 8 + 1); }
}
