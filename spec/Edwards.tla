------------------------------ MODULE Edwards ------------------------------
(* L0: the twisted Edwards curve  A x^2 + y^2 = 1 + D x^2 y^2  over F_P,    *)
(* affine complete addition law, the 2-torsion point T2 = (0,-1), the coset *)
(* relation of Decaf (cofactor 4: an element is the coset {Q, Q + T2}),     *)
(* membership in 2E, k-fold sums.  Points are pairs <<x, y>>.               *)
EXTENDS PrimeField
CONSTANTS A, D
OnCurve(Pt) == LET x2 == FSq(Pt[1]) y2 == FSq(Pt[2]) IN
               FAdd(FMul(A, x2), y2) = FAdd(NOne, FMul(D, FMul(x2, y2)))
EId == <<NZero, NOne>>
T2  == <<NZero, FNeg(NOne)>>
EAdd(P1, P2) ==
  LET x1 == P1[1] y1 == P1[2] x2 == P2[1] y2 == P2[2]
      k  == FMul(D, FMul(FMul(x1, x2), FMul(y1, y2)))
  IN << FDiv(FAdd(FMul(x1, y2), FMul(y1, x2)), FAdd(NOne, k)),
        FDiv(FSub(FMul(y1, y2), FMul(A, FMul(x1, x2))), FSub(NOne, k)) >>
ENeg(Pt) == <<FNeg(Pt[1]), Pt[2]>>
ESub(P1, P2) == EAdd(P1, ENeg(P2))
EDbl(Pt) == EAdd(Pt, Pt)
Torque(Pt) == <<FNeg(Pt[1]), FNeg(Pt[2])>>             \* Pt + T2
SameElement(P1, P2) == P2 = P1 \/ P2 = Torque(P1)
Reps(Pt) == {Pt, Torque(Pt)}
\* equality test of the Decaf paper, section 4.5 (what PartialEq computes)
DecafEq(P1, P2) == FMul(P1[1], P2[2]) = FMul(P1[2], P2[1])
\* membership in 2E for a curve point: x = 0 (identity coset) or (A - D)(1 - y^2) ... see Decaf paper
In2E(Pt) == OnCurve(Pt) /\ (Pt[1] = NZero \/
              (FSub(NOne, FSq(Pt[2])) # NZero /\ IsSquare(FMul(FSub(A, D), FSub(NOne, FSq(Pt[2]))))))
\* a valid representative of a decaf377 element
Valid(Pt) == In2E(Pt)
IsIdentityElt(Pt) == Pt[1] = NZero
\* k-fold sum, k given as a little-endian bit sequence (any length)
RECURSIVE SMulBitsR(_, _, _, _)
SMulBitsR(bits, i, acc, ins) ==
  IF i > Len(bits) THEN acc
  ELSE LET acc2 == IF bits[i] = 1 THEN EAdd(acc, ins) ELSE acc
           ins2 == EDbl(ins)
       IN IF acc2 = acc2 /\ ins2 = ins2 THEN SMulBitsR(bits, i + 1, acc2, ins2) ELSE acc
SMulBits(bits, Pt) == SMulBitsR(bits, 1, EId, Pt)
SMul(k, Pt) == SMulBits(NBits(k), Pt)
\* sum of a sequence of points
RECURSIVE ESumR(_, _, _)
ESumR(pts, i, acc) == IF i > Len(pts) THEN acc
                      ELSE LET a2 == EAdd(acc, pts[i]) IN IF a2 = a2 THEN ESumR(pts, i + 1, a2) ELSE acc
ESum(pts) == ESumR(pts, 1, EId)
\* extended projective (X, Y, Z, T) <-> affine
ToAffine(XYZT) == << FDiv(XYZT[1], XYZT[3]), FDiv(XYZT[2], XYZT[3]) >>
ExtOf(Pt, lam) == << FMul(lam, Pt[1]), FMul(lam, Pt[2]), lam, FMul(lam, FMul(Pt[1], Pt[2])) >>
ExtOK(E) == E[3] # NZero /\ FMul(E[1], E[2]) = FMul(E[3], E[4])      \* Segre: X Y = Z T
=============================================================================
