------------------------------ MODULE MC_Field ------------------------------
(* Toy model of the field wrappers (C10/C11 at design level): the algorithms   *)
(* of src/fields/*/{u32,u64}/wrapper.rs and src/fields/*.rs as coded, over a   *)
(* toy prime and toy "bytes" (digits in base ByteBase), checked exhaustively   *)
(* against integer arithmetic mod P.                                           *)
(*  - Montgomery-domain wrapper: an element is stored as the residue x*R;      *)
(*    from_raw_bytes / to_bytes_le convert, mul is Montgomery multiplication,  *)
(*    constants are given as Montgomery limbs, conditional_select / ct_eq work *)
(*    on the stored limbs.  The refinement mapping  abs(m) = m * R^-1  must    *)
(*    commute with every operation (this is where `new` vs `new_unchecked`     *)
(*    goes wrong: the pinned conditional_select rebuilt the result with a      *)
(*    constructor that converts AGAIN -- variant "select_new" below).          *)
(*  - from_le_bytes_mod_order: chunks of N8 digits, each reduced, folded from  *)
(*    the most significant chunk with FIELD_SIZE_POWER_OF_TWO = ByteBase^N8;   *)
(*    from_bytes_checked: accept iff reduce(bytes) serialises to the same      *)
(*    bytes; Ord on reversed limbs.                                            *)
EXTENDS Integers, Sequences, FiniteSets, TLC
CONSTANTS P, ByteBase, N8, Mode
R == ByteBase                                 \* Montgomery radix of the toy backend: R^N8 > P; we use R1 = ByteBase^N8
RECURSIVE Pow(_, _)
Pow(b, e) == IF e = 0 THEN 1 ELSE b * Pow(b, e - 1)
R1 == Pow(ByteBase, N8)                        \* 2^(8*N_8) of the real code
ASSUME R1 > P /\ P > 2
ASSUME TLCSet(41, CHOOSE x \in 1..(P - 1) : (x * (R1 % P)) % P = 1)
RInv == TLCGet(41)
Fp == 0..(P - 1)
\* little-endian digits <-> integers
RECURSIVE ValOf(_)
ValOf(ds) == IF ds = <<>> THEN 0 ELSE Head(ds) + ByteBase * ValOf(Tail(ds))
Digits(n, len) == [i \in 1..len |-> (n \div Pow(ByteBase, i - 1)) % ByteBase]
\* ---- the wrapper, as coded ---------------------------------------------------
ToMont(x) == (x * R1) % P
FromMont(m) == (m * RInv) % P
FromRawBytes(ds) == ToMont(ValOf(ds) % P)                 \* from_raw_bytes: N8 digits, any value
ToBytesLe(m) == Digits(FromMont(m), N8)
MontMul(a, b) == (a * b * RInv) % P
MontAdd(a, b) == (a + b) % P
MontNeg(a) == (P - a) % P
MontOne == ToMont(1)
FieldSizePowerOfTwo == ToMont(R1 % P)                      \* FIELD_SIZE_POWER_OF_TWO (Montgomery form of 2^(8 N8) mod p)
SelectUnchecked(a, b, c) == IF c = 1 THEN b ELSE a         \* limbs selected, rebuilt with new_unchecked (repaired code)
SelectNew(a, b, c) == ToMont(IF c = 1 THEN b ELSE a)        \* ... rebuilt with `new`, which converts again (pinned defect)
CtEq(a, b) == a = b                                        \* compares stored limbs
\* from_le_bytes_mod_order as coded: chunks(N8), pad, from_raw_bytes, rev, fold acc * FSP2 + x
RECURSIVE Chunks(_)
Chunks(ds) == IF Len(ds) = 0 THEN <<>>
              ELSE IF Len(ds) <= N8 THEN << ds \o [i \in 1..(N8 - Len(ds)) |-> 0] >>
              ELSE << SubSeq(ds, 1, N8) >> \o Chunks(SubSeq(ds, N8 + 1, Len(ds)))
RECURSIVE FoldRev(_, _, _)
FoldRev(cs, i, acc) == IF i = 0 THEN acc ELSE FoldRev(cs, i - 1, MontAdd(MontMul(acc, FieldSizePowerOfTwo), FromRawBytes(cs[i])))
FromLeBytesModOrder(ds) == LET cs == Chunks(ds) IN FoldRev(cs, Len(cs), 0)
FromBytesChecked(ds) == LET m == FromRawBytes(ds) IN IF ToBytesLe(m) = ds THEN <<TRUE, m>> ELSE <<FALSE, 0>>
\* Ord: limbs reversed, compared lexicographically (most significant first)
RECURSIVE LexLess(_, _, _)
LexLess(a, b, i) == IF i = 0 THEN FALSE ELSE IF a[i] < b[i] THEN TRUE ELSE IF a[i] > b[i] THEN FALSE ELSE LexLess(a, b, i - 1)
OrdLess(m1, m2) == LexLess(ToBytesLe(m1), ToBytesLe(m2), N8)

Strings(maxlen) == UNION {[1..n -> 0..(ByteBase - 1)] : n \in 0..maxlen}
VARIABLES phase, a, b, c, ds
vars == <<phase, a, b, c, ds>>
Init == phase = "init" /\ a = 0 /\ b = 0 /\ c = 0 /\ ds = <<>>
Next == /\ phase = "init" /\ phase' = "chk"
        /\ IF Mode = "arith" THEN a' \in Fp /\ b' \in Fp /\ c' \in {0, 1} /\ ds' = ds
           ELSE ds' \in Strings(3 * N8) /\ UNCHANGED <<a, b, c>>
\* refinement: abs(stored) = canonical value
InvArith == (phase = "chk" /\ Mode = "arith") =>
  LET ma == ToMont(a) mb == ToMont(b) IN
  /\ FromMont(ma) = a
  /\ FromMont(MontMul(ma, mb)) = (a * b) % P
  /\ FromMont(MontAdd(ma, mb)) = (a + b) % P
  /\ FromMont(MontNeg(ma)) = (P - a) % P
  /\ FromMont(MontOne) = 1
  /\ SelectUnchecked(ma, mb, c) \in {ma, mb} /\ FromMont(SelectUnchecked(ma, mb, c)) = (IF c = 1 THEN b ELSE a)
  /\ CtEq(ma, mb) <=> (a = b)
  /\ OrdLess(ma, mb) <=> (a < b)
  /\ ToBytesLe(ma) = Digits(a, N8) /\ FromRawBytes(Digits(a, N8)) = ma
\* the pinned defect at design level: select-with-reconversion returns an operand only when R1 = 1 mod P or the operand is 0
DefectSelectNew == \A x \in Fp : (FromMont(SelectNew(ToMont(x), ToMont(x), 0)) = x) <=> (x = 0 \/ R1 % P = 1)
ASSUME DefectSelectNew
InvBytes == (phase = "chk" /\ Mode = "bytes") =>
  /\ FromMont(FromLeBytesModOrder(ds)) = ValOf(ds) % P                               \* reduction of any length
  /\ (Len(ds) = N8) => (FromBytesChecked(ds)[1] <=> (ValOf(ds) < P))                  \* checked parsing accepts exactly [0, p)
  /\ (Len(ds) = N8 /\ FromBytesChecked(ds)[1]) => ToBytesLe(FromBytesChecked(ds)[2]) = ds
=============================================================================
