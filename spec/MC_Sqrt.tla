------------------------------ MODULE MC_Sqrt ------------------------------
(* Exhaustive toy model for C09: the two square-root-of-ratio routines as     *)
(* coded, transcribed generically in the two-adicity n and the table window   *)
(* w, checked against the four-case contract on EVERY pair (num, den).        *)
(*   Sarkar  : src/ark_curve/invsqrt.rs   (table-driven; a lookup miss is the *)
(*             explicit value "MISS" -- the Rust would panic on the HashMap)   *)
(*   Tonelli : src/min_curve/invsqrt.rs   (constant-time Tonelli-Shanks)      *)
(* decaf377 has n = 47, w = 8: digit windows 8,7,8,8,8,8.  The toy layouts    *)
(* have the same shape: a full first window, a short second one, full ones.   *)
EXTENDS PrimeField, IntOps, FiniteSets
CONSTANTS W,            \* table window (SQRT_W)
          Nr,           \* the non-residue whose trace power the Tonelli routine uses (QUADRATIC_NON_RESIDUE)
          Mode

N == TwoAdicity
M == TraceT
G == ZetaToTrace                                   \* g = zeta^M generates the 2-Sylow subgroup
K == (N + W - 1) \div W                            \* number of digit windows
\* window lengths: l_0 = W, l_1 = N - (K-1) W (short), l_2.. = W         (K >= 2)
Ell(i) == IF i = 1 THEN N - (K - 1) * W ELSE W
\* c_i = l_0 + ... + l_i
RECURSIVE Cum(_)
Cum(i) == IF i = 0 THEN Ell(0) ELSE Cum(i - 1) + Ell(i)
ASSUME Cum(K - 1) = N /\ Ell(1) >= 1
TwoW == IntPow2(W)
\* tables, as SquareRootTables::new builds them
ASSUME TLCSet(21, [nu \in 0..(TwoW - 1) |-> FInv(FPow(G, nu * IntPow2(N - W)))])      \* keys of s_lookup
SKey == TLCGet(21)
ASSUME TLCSet(22, [j \in 0..(K - 1) |-> [nu \in 0..(TwoW - 1) |-> FPow(G, nu * IntPow2(W * j))]])
GTab == TLCGet(22)
Miss == -1                                           \* sentinel: a table lookup found no row
SLookup(y) == IF \E nu \in 0..(TwoW - 1) : SKey[nu] = y
              THEN CHOOSE nu \in 0..(TwoW - 1) : SKey[nu] = y ELSE Miss
NonSq == <<NOne, FInv(FPow(Zeta, (M - 1) \div 2))>>      \* [1, zeta^((1-M)/2)]
\* g^(t * 2^(W*j0)) from the byte-aligned digits of t, as the products of table entries in the code
RECURSIVE GPowDigits(_, _, _)
GPowDigits(t, j, acc) == IF t = 0 \/ j >= K THEN (IF t = 0 THEN acc ELSE Miss)
                         ELSE GPowDigits(t \div TwoW, j + 1, FMul(acc, GTab[j][t % TwoW]))
\* main loop: i = 1 .. K-1;  xs[i] = x_i
RECURSIVE SarkarLoop(_, _, _)
SarkarLoop(xs, i, t) ==
  IF i > K - 1 THEN t
  ELSE LET m == N - Cum(i)                            \* x_i = x^(2^m); m is a multiple of W
           gp == GPowDigits(t, m \div W, NOne)
       IN IF gp = Miss THEN Miss
          ELSE LET q == SLookup(FMul(xs[i], gp))
               IN IF q = Miss THEN Miss ELSE SarkarLoop(xs, i + 1, t + q * IntPow2(Cum(i) - W))
Sarkar(num, den) ==
  IF num = 0 THEN <<TRUE, 0, FALSE>>
  ELSE IF den = 0 THEN <<FALSE, 0, FALSE>>
  ELSE LET s == FPow(den, IntPow2(N) - 1)
           tt == FMul(FSq(s), den)
           w == FMul(FPow(FMul(num, tt), (M - 1) \div 2), s)
           v == FMul(w, den)
           uv == FMul(w, num)
           x == FMul(uv, v)
           xs == [i \in 0..(K - 1) |-> FPow(x, IntPow2(N - Cum(i)))]
           q0 == SLookup(xs[0])
       IN IF q0 = Miss THEN <<FALSE, 0, TRUE>>
          ELSE LET t == SarkarLoop(xs, 1, q0) IN
               IF t = Miss THEN <<FALSE, 0, TRUE>>
               ELSE LET t2 == (t + 1) \div 2
                        gp == GPowDigits(t2, 0, NOne)
                    IN IF gp = Miss THEN <<FALSE, 0, TRUE>>
                       ELSE <<(q0 % 2) = 0, FMul(FMul(uv, NonSq[(q0 % 2) + 1]), gp), FALSE>>

\* ---- constant-time Tonelli-Shanks of the minimal backend --------------------
RECURSIVE SqTimes(_, _)
SqTimes(b, j) == IF j <= 0 THEN b ELSE SqTimes(FMul(b, b), j - 1)
RECURSIVE CTLoop(_, _, _, _, _)
CTLoop(i, z, t, b, c) ==
  IF i < 2 THEN z
  ELSE LET b2 == SqTimes(b, i - 2)
           z2 == IF b2 # NOne THEN FMul(z, c) ELSE z
           c2 == FMul(c, c)
           t2 == IF b2 # NOne THEN FMul(t, c2) ELSE t
       IN CTLoop(i - 1, z2, t2, t2, c2)
OurSqrt(x) ==
  LET z0 == FPow(x, (M - 1) \div 2)
      t0 == FMul(FMul(z0, z0), x)
      z1 == FMul(z0, x)
  IN CTLoop(N, z1, t0, t0, FPow(Nr, M))
TonelliRatio(num, den) ==
  IF num = 0 THEN <<TRUE, 0>>
  ELSE IF den = 0 THEN <<FALSE, 0>>
  ELSE LET x == FDiv(num, den)
           symbol == FPow(x, (P - 1) \div 2)
       IN IF symbol = NOne THEN <<TRUE, OurSqrt(x)>> ELSE <<FALSE, OurSqrt(FMul(Zeta, x))>>

VARIABLES phase, num, den
vars == <<phase, num, den>>
Init == phase = "init" /\ num = 0 /\ den = 0
Next == phase = "init" /\ phase' = "chk" /\ num' \in 0..(P - 1) /\ den' \in 0..(P - 1)
InvSarkar == (phase = "chk" /\ Mode = "sarkar") =>
   LET r == Sarkar(num, den) IN ~r[3] /\ SqrtRatioOK(num, den, r[1], r[2])
InvTonelli == (phase = "chk" /\ Mode = "tonelli") =>
   LET r == TonelliRatio(num, den) IN SqrtRatioOK(num, den, r[1], r[2])
ASSUME ~IsSquare(Zeta) /\ ~IsSquare(Nr)
=============================================================================
