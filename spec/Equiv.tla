------------------------------- MODULE Equiv -------------------------------
(* C12: two replicas of the library -- the arkworks build (64-bit fields,    *)
(* arkworks curve arithmetic) and the minimal build (32-bit fiat fields,     *)
(* self-contained curve) -- consume ONE stream of operations.  The driver    *)
(* zips the two transcripts line by line; a step is enabled only if both     *)
(* replicas were given the same call with the same arguments and produced    *)
(* the same OBSERVABLES: every logged field except the internal              *)
(* representative (`rep`) and the build tag.  Each transcript is, separately,*)
(* validated as a behaviour of Session / FieldAPI by the other trace specs.  *)
EXTENDS Naturals, Sequences, TLC, Json, IOUtils
Rec == ndJsonDeserialize(IOEnv.TRACE)
VARIABLES l, nops
Private == {"rep", "build"}
Observable(e) == [f \in (DOMAIN e) \ Private |-> e[f]]
Init == l = 1 /\ nops = 0
Reset == l <= Len(Rec) /\ Rec[l].k = "reset" /\ l' = l + 1 /\ UNCHANGED nops
Step == /\ l <= Len(Rec) /\ ~("force" \in DOMAIN Rec[l]) /\ Rec[l].k = "pair"
        /\ LET a == Rec[l].ark m == Rec[l].min IN
           /\ a.build = "ark" /\ m.build = "min"
           /\ Observable(a) = Observable(m)
        /\ l' = l + 1 /\ nops' = nops + 1
Force == l <= Len(Rec) /\ "force" \in DOMAIN Rec[l] /\ l' = l + 1 /\ UNCHANGED nops
Next == Reset \/ Step \/ Force
Spec == Init /\ [][Next]_<<l, nops>>
TraceAccepted ==
  LET d == TLCGet("stats").diameter IN
  IF d - 1 = Len(Rec) THEN TRUE ELSE Print(<<"TRACE-REJECTED", d>>, FALSE)
=============================================================================
