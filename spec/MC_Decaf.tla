----------------------------- MODULE MC_Decaf -----------------------------
(* Exhaustive toy-curve model: the design-level half of C01-C08.            *)
(* One toy curve per .cfg (p = 13 ... 257, a = -1, d and zeta non-squares,   *)
(* #E = 4r, r prime: decaf377's structure).  The quantified object is chosen *)
(* by Next from a single initial state; one sub-model per quantifier shape   *)
(* (constant Mode).  Invariants are evaluated in every reachable state.      *)
EXTENDS DecafImpl, IntOps, FiniteSets
CONSTANTS Mode, R            \* R = the prime group order (#E = 4R)

Fp == 0..(P - 1)
ASSUME TLCSet(1, {pt \in Fp \X Fp : OnCurve(pt)})
Curve == TLCGet(1)
ASSUME TLCSet(2, {EAdd(pt, pt) : pt \in Curve})
TwoE == TLCGet(2)
ASSUME TLCSet(3, [q \in TwoE |-> EncodeSpec(q)])
EncTab == TLCGet(3)
ASSUME TLCSet(4, [x \in Fp |-> DecodeSpec(x)])
DecTab == TLCGet(4)
ASSUME TLCSet(5, [pr \in Curve \X Curve |-> EAdd(pr[1], pr[2])])
AddTab == TLCGet(5)
Accepted == {x \in Fp : DecTab[x] # NoPoint}
SqA(num, den) == SqrtRatio(num, den)
SqB(num, den) == SqrtRatioNeg(num, den)

\* ---- structure facts, checked once per curve ---------------------------
ASSUME Cardinality(Curve) = 4 * R /\ Cardinality(TwoE) = 2 * R /\ Cardinality(Accepted) = R
ASSUME \A q \in Curve : In2E(q) <=> q \in TwoE                    \* the 2E test characterises 2E
ASSUME ~IsSquare(Zeta) /\ ~IsSquare(D) /\ ~IsSquare(FSub(D, A)) /\ A = FNeg(NOne)
ASSUME T2 \in TwoE /\ EId \in TwoE /\ CoeffK = FMul(FTwo, D)
ASSUME \A q \in TwoE : \A q2 \in TwoE : AddTab[<<q, q2>>] \in TwoE  \* closure
ASSUME \A b \in 0..(P-1) : IsSquare(b) <=> (\E y \in Fp : (y * y) % P = b)

VARIABLES phase, pt, pt2, lam, s, bits
vars == <<phase, pt, pt2, lam, s, bits>>
Init == phase = "init" /\ pt = EId /\ pt2 = EId /\ lam = 1 /\ s = 0 /\ bits = <<>>

BitSeqs(n) == [1..n -> {0, 1}]
ByteStrings(n) == [1..n -> 0..255]
NextPoint == Mode = "point" /\ phase = "init" /\ phase' = "chk"
             /\ pt' \in Curve /\ lam' \in 1..(P - 1) /\ UNCHANGED <<pt2, s, bits>>
NextPair  == Mode = "pair" /\ phase = "init" /\ phase' = "chk"
             /\ pt' \in Curve /\ pt2' \in Curve /\ lam' \in {1, 2, P - 1} /\ UNCHANGED <<s, bits>>
NextField == Mode = "field" /\ phase = "init" /\ phase' = "chk"
             /\ s' \in Fp /\ UNCHANGED <<pt, pt2, lam, bits>>
NextBytes == Mode = "bytes" /\ phase = "init" /\ phase' = "chk"
             /\ bits' \in UNION {ByteStrings(n) : n \in {0, EncLen}} \cup {[i \in 1..n |-> 1] : n \in 0..(2 * EncLen + 2)}
             /\ UNCHANGED <<pt, pt2, lam, s>>
NextScalar == Mode = "scalar" /\ phase = "init" /\ phase' = "chk"
             /\ pt' \in Curve /\ lam' \in {1, 3} /\ s' \in 0..(4 * R + 3) /\ bits' \in {<<>>, <<0>>, <<0, 0, 0>>}
             /\ UNCHANGED <<pt2>>
Next == NextPoint \/ NextPair \/ NextField \/ NextBytes \/ NextScalar

Scaled(q, l) == ExtOf(q, l)
EncI(E, sq(_, _)) == EncodeImpl(E[1], E[2], E[3], E[4], sq)

\* C03 / C01: encoding of any representative and rescaling is the specified one
InvPoint == (phase = "chk" /\ Mode = "point") =>
   IF pt \in TwoE THEN
     /\ EncI(Scaled(pt, lam), SqA) = EncTab[pt]
     /\ EncI(Scaled(pt, lam), SqB) = EncTab[pt]
     /\ EncI(Scaled(Torque(pt), lam), SqA) = EncTab[pt]
     /\ EncTab[Torque(pt)] = EncTab[pt]
     /\ SameElement(pt, DecTab[EncTab[pt]])                         \* decode(encode) = id
     /\ ~IsNeg(EncTab[pt]) /\ NLess(EncTab[pt], NPow2(FieldBits))
     /\ EncodeImplFlag(Scaled(pt, lam)[1], Scaled(pt, lam)[2], Scaled(pt, lam)[3], Scaled(pt, lam)[4], SqA) \/ pt[1] = NZero
     /\ ExtOK(ExtDbl(Scaled(pt, lam))) /\ ToAffine(ExtDbl(Scaled(pt, lam))) = AddTab[<<pt, pt>>]
     /\ ToAffine(ExtNeg(Scaled(pt, lam))) = ENeg(pt)
   ELSE \* outside 2E the encoder's square-root flag is false: such points have no encoding
     /\ ~EncodeImplFlag(Scaled(pt, lam)[1], Scaled(pt, lam)[2], Scaled(pt, lam)[3], Scaled(pt, lam)[4], SqA)
     /\ ExtOK(ExtDbl(Scaled(pt, lam))) /\ ToAffine(ExtDbl(Scaled(pt, lam))) = AddTab[<<pt, pt>>]

\* C04 / C08: extended addition is the affine law on ALL pairs of curve points; equality is the coset relation
InvPair == (phase = "chk" /\ Mode = "pair") =>
   LET sum == ExtAdd(Scaled(pt, lam), Scaled(pt2, 1)) IN
   /\ ExtOK(sum) /\ ToAffine(sum) = AddTab[<<pt, pt2>>]
   /\ AddTab[<<pt, pt2>>] = AddTab[<<pt2, pt>>]
   /\ AddTab[<<pt, EId>>] = pt /\ AddTab[<<pt, ENeg(pt)>>] = EId
   /\ AddTab[<<pt, T2>>] = Torque(pt)
   /\ (pt \in TwoE /\ pt2 \in TwoE) =>
        /\ (EncTab[pt2] = EncTab[pt]) <=> SameElement(pt, pt2)
        /\ DecafEq(pt, pt2) <=> SameElement(pt, pt2)
        /\ IsIdentityElt(pt) <=> SameElement(pt, EId)
        /\ EncTab[AddTab[<<pt, pt2>>]] = EncTab[AddTab[<<Torque(pt), pt2>>]]

\* C01 / C02 / C07: per field element
InvField == (phase = "chk" /\ Mode = "field") =>
   /\ (DecodeImpl(s, SqA) = NoPoint) <=> (DecTab[s] = NoPoint)
   /\ (DecodeImpl(s, SqB) = NoPoint) <=> (DecTab[s] = NoPoint)
   /\ DecTab[s] # NoPoint =>
        /\ SameElement(DecTab[s], DecodeImpl(s, SqA)) /\ SameElement(DecTab[s], DecodeImpl(s, SqB))
        /\ DecTab[s] \in TwoE /\ EncTab[DecTab[s]] = s
   /\ SameElement(ElligatorSpec(s), ToAffine(ElligatorImpl(s, SqA)))
   /\ SameElement(ElligatorSpec(s), ToAffine(ElligatorImpl(s, SqB)))
   /\ ExtOK(ElligatorImpl(s, SqA))
   /\ ElligatorSpec(s) \in TwoE
   /\ SameElement(ElligatorSpec(s), ElligatorSpec(FNeg(s)))
   /\ ~ElligatorBranch(s, SqA)[3]                                    \* num*den # 0 for every r0
   /\ IsSquare(s) => FSq(FSqrt(s)) = s
   /\ \A d \in Fp : SqrtRatioOK(s, d, SqrtRatio(s, d)[1], SqrtRatio(s, d)[2])

\* C02: per byte string (every string of the encoding length, plus other lengths)
InvBytes == (phase = "chk" /\ Mode = "bytes") =>
   LET i == DecodeImplBytes(bits, SqA) sp == DecodeBytes(bits) IN
   /\ i.ok = sp.ok /\ i.err = sp.err
   /\ i.ok => /\ SameElement(sp.pt, <<i.ext[1], i.ext[2]>>)
              /\ EncodeBytes(sp.pt) = bits                            \* re-encoding reproduces the bytes
   /\ (Len(bits) = EncLen /\ ~NLess(IntFromBytes(bits), NPow2(FieldBits))) => ~NLess(IntFromBytes(bits), P)

\* C05: the ladder is the k-fold sum, for every point of E, trailing zero bits allowed
InvScalar == (phase = "chk" /\ Mode = "scalar") =>
   LET kb == IntBits(s) \o bits
       l == Ladder(kb, Scaled(pt, lam)) IN
   /\ ExtOK(l) /\ ToAffine(l) = SMulBits(IntBits(s), pt)
   /\ SMulBits(IntBits(s), pt) = SMulBits(IntBits(s % (4 * R)), pt)
   /\ pt \in TwoE => SameElement(SMulBits(IntBits(R), pt), EId)
   /\ pt \in TwoE => SMulBits(IntBits(s), pt) \in TwoE
=============================================================================
