----------------------------- MODULE LazyVarInd -----------------------------
(* Unbounded safety of the lazy-variable state machine by an INDUCTIVE invariant, *)
(* discharged symbolically by Apalache (no bound on the number of calls or of     *)
(* in-place operations):                                                          *)
(*    IndInit => IndInv            (length 0)                                     *)
(*    IndInv /\ Next => IndInv'    (length 1, started from IndInv)                *)
(* Same transitions as LazyVar.tla, without the call history and the cost         *)
(* bookkeeping (integers and strings only).  "None" is encoded as -1.             *)
EXTENDS Integers

VARIABLES
  \* @type: Str;
  st,
  \* @type: Int;
  epoch,
  \* @type: Int;
  encEpoch,
  \* @type: Int;
  eltEpoch,
  \* @type: Int;
  transitions

HasEnc == encEpoch # -1
HasElt == eltEpoch # -1

Init == /\ st \in {"Encoding", "Element"}
        /\ epoch = 0
        /\ encEpoch = (IF st = "Encoding" THEN 0 ELSE -1)
        /\ eltEpoch = (IF st = "Element" THEN 0 ELSE -1)
        /\ transitions = 0
ForceElement == /\ IF st = "Encoding"
                   THEN st' = "Both" /\ eltEpoch' = epoch /\ transitions' = transitions + 1
                   ELSE UNCHANGED <<st, eltEpoch, transitions>>
                /\ UNCHANGED <<epoch, encEpoch>>
ForceEncoding == /\ IF st = "Element"
                    THEN st' = "Both" /\ encEpoch' = epoch /\ transitions' = transitions + 1
                    ELSE UNCHANGED <<st, encEpoch, transitions>>
                 /\ UNCHANGED <<epoch, eltEpoch>>
Mutate == /\ epoch' = epoch + 1 /\ st' = "Element" /\ eltEpoch' = epoch + 1 /\ encEpoch' = -1 /\ transitions' = 0
Next == ForceElement \/ ForceEncoding \/ Mutate

\* the properties
CacheCoherent == (HasEnc => encEpoch = epoch) /\ (HasElt => eltEpoch = epoch)
OnceOnly == transitions <= 1 /\ (transitions = 1 => st = "Both")
PairComplete == (st = "Both") => (HasEnc /\ HasElt)
NoUnreachable == \* element() never finds Encoding after forcing; encoding() never finds Element after forcing: implied by
                 (st \in {"Encoding", "Element", "Both"})
\* the inductive invariant: the properties plus what makes them inductive
IndInv == /\ st \in {"Encoding", "Element", "Both"}
          /\ epoch >= 0 /\ transitions >= 0
          /\ (st = "Encoding") => (encEpoch = epoch /\ eltEpoch = -1 /\ transitions = 0)
          /\ (st = "Element") => (eltEpoch = epoch /\ encEpoch = -1 /\ transitions = 0)
          /\ (st = "Both") => (encEpoch = epoch /\ eltEpoch = epoch /\ transitions = 1)
IndInit == /\ st \in {"Encoding", "Element", "Both"} /\ epoch \in Int /\ encEpoch \in Int /\ eltEpoch \in Int /\ transitions \in Int
           /\ IndInv
Safety == CacheCoherent /\ OnceOnly /\ PairComplete
=============================================================================
