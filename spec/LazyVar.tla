------------------------------ MODULE LazyVar ------------------------------
(* The lazily evaluated element variable of src/ark_curve/r1cs/lazy.rs as a   *)
(* state machine.  A variable is created from an encoding or from an element; *)
(* ForceElement / ForceEncoding are the two accessors.  The model checks, for *)
(* every sequence of accessor calls (bounded by MaxCalls): the value pair     *)
(* never changes once set; constraints are emitted only on the single         *)
(* transition into "Both"; the `unreachable!()` arms are unreachable.  It is  *)
(* also the behaviour generator of the plan replayed into the real gadget     *)
(* (history variable `calls`, hidden from the state space by a VIEW).         *)
EXTENDS Naturals, Sequences, TLC, Json, IOUtils
CONSTANTS MaxCalls, CostDecode, CostEncode
VARIABLES st, hasEnc, hasElt, ncons, transitions, calls, unreachable
vars == <<st, hasEnc, hasElt, ncons, transitions, calls, unreachable>>
view == <<st, hasEnc, hasElt, ncons, transitions, Len(calls), unreachable>>

Init == /\ st \in {"Encoding", "Element"}
        /\ hasEnc = (st = "Encoding") /\ hasElt = (st = "Element")
        /\ ncons = 0 /\ transitions = 0 /\ calls = <<>> /\ unreachable = FALSE
\* element(): if Encoding, decompress and move to Both; then return the element
ForceElement ==
  /\ Len(calls) < MaxCalls
  /\ IF st = "Encoding"
     THEN st' = "Both" /\ hasElt' = TRUE /\ ncons' = ncons + CostDecode /\ transitions' = transitions + 1
     ELSE UNCHANGED <<st, hasElt, ncons, transitions>>
  /\ unreachable' = (unreachable \/ st' = "Encoding")         \* the arm `Inner::Encoding(_) => unreachable!()`
  /\ calls' = Append(calls, "E") /\ UNCHANGED hasEnc
\* encoding(): if Element, compress and move to Both; then return the encoding
ForceEncoding ==
  /\ Len(calls) < MaxCalls
  /\ IF st = "Element"
     THEN st' = "Both" /\ hasEnc' = TRUE /\ ncons' = ncons + CostEncode /\ transitions' = transitions + 1
     ELSE UNCHANGED <<st, hasEnc, ncons, transitions>>
  /\ unreachable' = (unreachable \/ st' = "Element")
  /\ calls' = Append(calls, "C") /\ UNCHANGED hasElt
\* value(): reads the element (forces it), emits nothing itself
ReadValue ==
  /\ Len(calls) < MaxCalls
  /\ IF st = "Encoding"
     THEN st' = "Both" /\ hasElt' = TRUE /\ ncons' = ncons + CostDecode /\ transitions' = transitions + 1
     ELSE UNCHANGED <<st, hasElt, ncons, transitions>>
  /\ unreachable' = (unreachable \/ st' = "Encoding")
  /\ calls' = Append(calls, "V") /\ UNCHANGED hasEnc
Next == ForceElement \/ ForceEncoding \/ ReadValue
Spec == Init /\ [][Next]_vars

TypeOK == st \in {"Encoding", "Element", "Both"} /\ ncons \in {0, CostDecode, CostEncode}
NoUnreachable == ~unreachable
OnceOnly == transitions <= 1 /\ (transitions = 1 <=> st = "Both")
PairComplete == (st = "Both") => (hasEnc /\ hasElt)
\* values never change once set: a present component stays present (action property)
Monotone == [][(hasEnc => hasEnc') /\ (hasElt => hasElt') /\ ncons' >= ncons]_vars
\* every complete behaviour is written out as one plan line (spec -> implementation direction)
RECURSIVE Join(_)
Join(s) == IF s = <<>> THEN "" ELSE Head(s) \o Join(Tail(s))
EmitPlan == (Len(calls) >= 1) => PrintT(<<"PLANLINE", Join(calls)>>)
=============================================================================
