------------------------------ MODULE LazyVar ------------------------------
(* The lazily evaluated element variable of src/ark_curve/r1cs/lazy.rs (as used *)
(* through r1cs/element.rs and ops.rs) as a state machine.  A variable is       *)
(* created from an encoding or from an element; ForceElement / ForceEncoding /  *)
(* ReadValue are the accessors; Mutate is any in-place group operation          *)
(* (double_in_place, +=, -=, x = x.negate()), which forces the element, computes *)
(* a NEW element and must start a fresh cache: the variable then holds only the *)
(* new element.                                                                 *)
(* The model checks, for every sequence of calls (bounded by MaxCalls):         *)
(*   - cache coherence: a cached encoding / element always belongs to the       *)
(*     CURRENT value (epoch) of the variable;                                   *)
(*   - constraints are emitted only on the single transition into "Both" of     *)
(*     each epoch (and by the mutation itself);                                 *)
(*   - the `unreachable!()` arms are unreachable.                               *)
(* It is also the behaviour generator of the plan replayed into the real gadget *)
(* (history variable `calls`, hidden from the state space by a VIEW).           *)
EXTENDS Naturals, Sequences, TLC
CONSTANTS MaxCalls, CostDecode, CostEncode, CostMutate, Mutators, WithEq
VARIABLES st, epoch, encEpoch, eltEpoch, ncons, transitions, calls, unreachable
vars == <<st, epoch, encEpoch, eltEpoch, ncons, transitions, calls, unreachable>>
view == <<st, epoch, encEpoch, eltEpoch, transitions, Len(calls), unreachable>>
None == 99
HasEnc == encEpoch # None
HasElt == eltEpoch # None

Init == /\ st \in {"Encoding", "Element"}
        /\ epoch = 0
        /\ encEpoch = (IF st = "Encoding" THEN 0 ELSE None) /\ eltEpoch = (IF st = "Element" THEN 0 ELSE None)
        /\ ncons = 0 /\ transitions = 0 /\ calls = <<>> /\ unreachable = FALSE
\* element(): if Encoding, decompress and move to Both; then return the element
ForceElt == IF st = "Encoding"
            THEN st' = "Both" /\ eltEpoch' = epoch /\ ncons' = ncons + CostDecode /\ transitions' = transitions + 1
            ELSE UNCHANGED <<st, eltEpoch, ncons, transitions>>
ForceElement == /\ Len(calls) < MaxCalls /\ ForceElt
                /\ unreachable' = (unreachable \/ st' = "Encoding")       \* the arm `Inner::Encoding(_) => unreachable!()`
                /\ calls' = Append(calls, "E") /\ UNCHANGED <<epoch, encEpoch>>
ReadValue ==    /\ Len(calls) < MaxCalls /\ ForceElt
                /\ unreachable' = (unreachable \/ st' = "Encoding")
                /\ calls' = Append(calls, "V") /\ UNCHANGED <<epoch, encEpoch>>
\* enforce_equal(other): compares elements, i.e. forces this variable's element (the other variable is not modelled)
EnforceEq ==    /\ Len(calls) < MaxCalls /\ ForceElt
                /\ unreachable' = (unreachable \/ st' = "Encoding")
                /\ calls' = Append(calls, "Q") /\ UNCHANGED <<epoch, encEpoch>>
\* encoding(): if Element, compress and move to Both; then return the encoding
ForceEncoding == /\ Len(calls) < MaxCalls
                 /\ IF st = "Element"
                    THEN st' = "Both" /\ encEpoch' = epoch /\ ncons' = ncons + CostEncode /\ transitions' = transitions + 1
                    ELSE UNCHANGED <<st, encEpoch, ncons, transitions>>
                 /\ unreachable' = (unreachable \/ st' = "Element")
                 /\ calls' = Append(calls, "C") /\ UNCHANGED <<epoch, eltEpoch>>
\* an in-place group operation: force the element, compute the new one, start a fresh variable holding it
Mutate(m) == /\ Len(calls) < MaxCalls
             /\ epoch' = epoch + 1
             /\ st' = "Element" /\ eltEpoch' = epoch + 1 /\ encEpoch' = None
             /\ ncons' = ncons + (IF st = "Encoding" THEN CostDecode ELSE 0) + CostMutate
             /\ transitions' = 0
             /\ calls' = Append(calls, m) /\ UNCHANGED unreachable
Next == ForceElement \/ ForceEncoding \/ ReadValue \/ (WithEq /\ EnforceEq) \/ (\E m \in Mutators : Mutate(m))
Spec == Init /\ [][Next]_vars

TypeOK == st \in {"Encoding", "Element", "Both"}
NoUnreachable == ~unreachable
OnceOnly == transitions <= 1 /\ (transitions = 1 => st = "Both")
PairComplete == (st = "Both") => (HasEnc /\ HasElt)
\* what the accessors return is the cached component: it must belong to the current value
CacheCoherent == (HasEnc => encEpoch = epoch) /\ (HasElt => eltEpoch = epoch)
StateMatches == /\ (st = "Encoding") => (HasEnc /\ ~HasElt)
                /\ (st = "Element") => (HasElt /\ ~HasEnc)
\* every complete behaviour is written out as one plan line (spec -> implementation direction)
RECURSIVE Join(_)
Join(s) == IF s = <<>> THEN "" ELSE Head(s) \o Join(Tail(s))
EmitPlan == (Len(calls) >= 1) => PrintT(<<"PLANLINE", Join(calls)>>)
=============================================================================
