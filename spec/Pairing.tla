------------------------------ MODULE Pairing ------------------------------
(* C16: the BLS12-377 engine over the crate's own fields as an abstract        *)
(* bilinear group.  G1, G2, GT are modelled by their EXPONENTS modulo the      *)
(* group order q: a point a*G1 is the residue a, a pairing output e(aG1, bG2)  *)
(* is the residue a*b.  The state is what has been observed so far: for each   *)
(* group a table  exponent -> serialised bytes.  Every action requires         *)
(*   - the crate's engine and the reference engine to produce identical bytes  *)
(*     (compressed and uncompressed), and bytes to cross-deserialise;          *)
(*   - the tables to stay FUNCTIONAL and INJECTIVE: equal exponents <=> equal  *)
(*     bytes.  For GT this is bilinearity (e(aG1,bG2) depends only on ab, and  *)
(*     equals e(G1,G2)^(ab)) and non-degeneracy (ab # 0 => output # 1);        *)
(*     for G1/G2 it is the module action (sum of terms <-> sum of points).     *)
(* The G1 generator is additionally checked against the curve: on              *)
(* y^2 = x^3 + 1 over Fp and of order exactly q (short-Weierstrass law below). *)
EXTENDS ModArith, BN, RealParams, Json, IOUtils
BNIdent(b) == b
BNToBytes(n, len) == BNPad(BNStripTo(n, 1), len)
Qm == QReal          \* group order (= the crate's Fq)
Pm == PReal          \* base field

\* ---- short Weierstrass y^2 = x^3 + b over Fp, affine, <<>> = point at infinity ----
SWInf == <<>>
SWOn(pt, b) == pt = SWInf \/ MSq(Pm, pt[2]) = MAdd(Pm, MMul(Pm, MSq(Pm, pt[1]), pt[1]), b)
SWAdd(p1, p2) ==
  IF p1 = SWInf THEN p2 ELSE IF p2 = SWInf THEN p1
  ELSE IF p1[1] = p2[1] /\ p1[2] = MNeg(Pm, p2[2]) THEN SWInf
  ELSE LET lam == IF p1 = p2
                  THEN MDiv(Pm, MMul(Pm, NMod(NFromNat(3), Pm), MSq(Pm, p1[1])), MAdd(Pm, p1[2], p1[2]))
                  ELSE MDiv(Pm, MSub(Pm, p2[2], p1[2]), MSub(Pm, p2[1], p1[1]))
           x3 == MSub(Pm, MSub(Pm, MSq(Pm, lam), p1[1]), p2[1])
       IN << x3, MSub(Pm, MMul(Pm, lam, MSub(Pm, p1[1], x3)), p1[2]) >>
RECURSIVE SWMulR(_, _, _, _)
SWMulR(bits, i, acc, ins) ==
  IF i > Len(bits) THEN acc
  ELSE LET acc2 == IF bits[i] = 1 THEN SWAdd(acc, ins) ELSE acc
           ins2 == SWAdd(ins, ins)
       IN IF acc2 = acc2 /\ ins2 = ins2 THEN SWMulR(bits, i + 1, acc2, ins2) ELSE acc
SWMul(k, pt) == SWMulR(NBits(k), 1, SWInf, pt)
G1Gen == <<G1xReal, G1yReal>>
G1GenOK(x, y) ==
  /\ NEq(x, G1xReal) /\ NEq(y, G1yReal)
  /\ SWOn(G1Gen, MOne(Pm))
  /\ SWMul(Qm, G1Gen) = SWInf /\ G1Gen # SWInf            \* q prime: order exactly q

\* ---- the same over Fp2 = Fp[u]/(u^2 + 5) for G2 ---------------------------------
Beta2 == NSub(Pm, NFromNat(5))
F2Add(a, b) == <<MAdd(Pm, a[1], b[1]), MAdd(Pm, a[2], b[2])>>
F2Sub(a, b) == <<MSub(Pm, a[1], b[1]), MSub(Pm, a[2], b[2])>>
F2Neg(a) == <<MNeg(Pm, a[1]), MNeg(Pm, a[2])>>
F2Mul(a, b) == << MAdd(Pm, MMul(Pm, a[1], b[1]), MMul(Pm, Beta2, MMul(Pm, a[2], b[2]))),
                  MAdd(Pm, MMul(Pm, a[1], b[2]), MMul(Pm, a[2], b[1])) >>
F2Inv(a) == LET nrm == MInv(Pm, MSub(Pm, MSq(Pm, a[1]), MMul(Pm, Beta2, MSq(Pm, a[2]))))      \* 1 / (a0^2 - beta a1^2)
            IN << MMul(Pm, a[1], nrm), MNeg(Pm, MMul(Pm, a[2], nrm)) >>
F2Zero == <<MZero(Pm), MZero(Pm)>>
F2Three == <<NMod(NFromNat(3), Pm), MZero(Pm)>>
SW2On(pt, b) == pt = SWInf \/ F2Mul(pt[2], pt[2]) = F2Add(F2Mul(F2Mul(pt[1], pt[1]), pt[1]), b)
SW2Add(p1, p2) ==
  IF p1 = SWInf THEN p2 ELSE IF p2 = SWInf THEN p1
  ELSE IF p1[1] = p2[1] /\ p1[2] = F2Neg(p2[2]) THEN SWInf
  ELSE LET lam == IF p1 = p2
                  THEN F2Mul(F2Mul(F2Three, F2Mul(p1[1], p1[1])), F2Inv(F2Add(p1[2], p1[2])))
                  ELSE F2Mul(F2Sub(p2[2], p1[2]), F2Inv(F2Sub(p2[1], p1[1])))
           x3 == F2Sub(F2Sub(F2Mul(lam, lam), p1[1]), p2[1])
       IN << x3, F2Sub(F2Mul(lam, F2Sub(p1[1], x3)), p1[2]) >>
RECURSIVE SW2MulR(_, _, _, _)
SW2MulR(bits, i, acc, ins) ==
  IF i > Len(bits) THEN acc
  ELSE LET acc2 == IF bits[i] = 1 THEN SW2Add(acc, ins) ELSE acc
           ins2 == SW2Add(ins, ins)
       IN IF acc2 = acc2 /\ ins2 = ins2 THEN SW2MulR(bits, i + 1, acc2, ins2) ELSE acc
SW2Mul(k, pt) == SW2MulR(NBits(k), 1, SWInf, pt)
G2Gen == <<G2xReal, G2yReal>>
G2GenOK(x, y) ==
  /\ Len(x) = 2 /\ Len(y) = 2 /\ NEq(x[1], G2xReal[1]) /\ NEq(x[2], G2xReal[2]) /\ NEq(y[1], G2yReal[1]) /\ NEq(y[2], G2yReal[2])
  /\ SW2On(G2Gen, G2BReal)
  /\ SW2Mul(Qm, G2Gen) = SWInf /\ G2Gen # SWInf            \* order exactly q

\* ---- the tower Fp6 = Fp2[v]/(v^3 - u), Fp12 = Fp6[w]/(w^2 - v) and the pairing itself -------------
\* An Fp6 element is <<c0, c1, c2>> (c0 + c1 v + c2 v^2, ci in Fp2), an Fp12 element <<d0, d1>> (d0 + d1 w).
F2One == <<MOne(Pm), MZero(Pm)>>
F2MulXi(a) == << MMul(Pm, Beta2, a[2]), a[1] >>                       \* (a0 + a1 u) u = -5 a1 + a0 u
F6Zero == <<F2Zero, F2Zero, F2Zero>>
F6One == <<F2One, F2Zero, F2Zero>>
F6Add(a, b) == << F2Add(a[1], b[1]), F2Add(a[2], b[2]), F2Add(a[3], b[3]) >>
F6Sub(a, b) == << F2Sub(a[1], b[1]), F2Sub(a[2], b[2]), F2Sub(a[3], b[3]) >>
F6Neg(a) == << F2Neg(a[1]), F2Neg(a[2]), F2Neg(a[3]) >>
F6Mul(a, b) ==
  LET t11 == F2Mul(a[1], b[1]) t12 == F2Mul(a[1], b[2]) t13 == F2Mul(a[1], b[3])
      t21 == F2Mul(a[2], b[1]) t22 == F2Mul(a[2], b[2]) t23 == F2Mul(a[2], b[3])
      t31 == F2Mul(a[3], b[1]) t32 == F2Mul(a[3], b[2]) t33 == F2Mul(a[3], b[3])
  IN << F2Add(t11, F2MulXi(F2Add(t23, t32))),
        F2Add(F2Add(t12, t21), F2MulXi(t33)),
        F2Add(F2Add(t13, t22), t31) >>
F6MulV(a) == << F2MulXi(a[3]), a[1], a[2] >>                          \* times v
F6Inv(a) ==
  LET t0 == F2Sub(F2Mul(a[1], a[1]), F2MulXi(F2Mul(a[2], a[3])))
      t1 == F2Sub(F2MulXi(F2Mul(a[3], a[3])), F2Mul(a[1], a[2]))
      t2 == F2Sub(F2Mul(a[2], a[2]), F2Mul(a[1], a[3]))
      di == F2Inv(F2Add(F2Mul(a[1], t0), F2MulXi(F2Add(F2Mul(a[3], t1), F2Mul(a[2], t2)))))
  IN << F2Mul(t0, di), F2Mul(t1, di), F2Mul(t2, di) >>
F12One == <<F6One, F6Zero>>
F12Mul(a, b) == << F6Add(F6Mul(a[1], b[1]), F6MulV(F6Mul(a[2], b[2]))),
                   F6Add(F6Mul(a[1], b[2]), F6Mul(a[2], b[1])) >>
F12Sq(a) == LET t == F6Mul(a[1], a[2]) IN                             \* (a0 + a1 w)^2, w^2 = v
  << F6Sub(F6Sub(F6Mul(F6Add(a[1], a[2]), F6Add(a[1], F6MulV(a[2]))), t), F6MulV(t)), F6Add(t, t) >>
F12Conj(a) == << a[1], F6Neg(a[2]) >>                                 \* = a^(p^6)
F12Inv(a) == LET di == F6Inv(F6Sub(F6Mul(a[1], a[1]), F6MulV(F6Mul(a[2], a[2])))) IN
  << F6Mul(a[1], di), F6Neg(F6Mul(a[2], di)) >>
\* a^e, e given by its little-endian bit sequence, most significant bit first
RECURSIVE F12PowR(_, _, _, _)
F12PowR(a, bits, i, acc) ==
  IF i = 0 THEN acc
  ELSE LET sq == F12Sq(acc)
           nx == IF bits[i] = 1 THEN F12Mul(sq, a) ELSE sq
       IN IF nx = nx THEN F12PowR(a, bits, i - 1, nx) ELSE acc
F12Pow(a, e) == LET bits == NBits(e) IN F12PowR(a, bits, Len(bits), F12One)

\* Miller loop of the ate pairing f_{x,Q}(P), x = BlsXReal, P on E(Fp): y^2 = x^3 + 1, Q on the D-type twist
\* E'(Fp2): y^2 = x^3 + 1/u, untwisted by (x', y') -> (x' w^2, y' w^3).  The line through T (slope lam in Fp2,
\* taken on the twist) evaluated at P is  yP - lam xP w + (lam xT - yT) w^3,  w^3 = v w.
LineAt(lam, T, Pt) == << << <<Pt[2], MZero(Pm)>>, F2Zero, F2Zero >>,
                        << F2Neg(<<MMul(Pm, lam[1], Pt[1]), MMul(Pm, lam[2], Pt[1])>>), F2Sub(F2Mul(lam, T[1]), T[2]), F2Zero >> >>
SlopeDbl(T) == F2Mul(F2Mul(F2Three, F2Mul(T[1], T[1])), F2Inv(F2Add(T[2], T[2])))
SlopeAdd(T, Q) == F2Mul(F2Sub(Q[2], T[2]), F2Inv(F2Sub(Q[1], T[1])))
StepPoint(lam, T, Q) == LET x3 == F2Sub(F2Sub(F2Mul(lam, lam), T[1]), Q[1]) IN << x3, F2Sub(F2Mul(lam, F2Sub(T[1], x3)), T[2]) >>
RECURSIVE MillerR(_, _, _, _, _, _)
MillerR(Pt, Q, bits, i, T, f) ==
  IF i = 0 THEN f
  ELSE LET l1 == SlopeDbl(T)
           f1 == F12Mul(F12Sq(f), LineAt(l1, T, Pt))
           T1 == StepPoint(l1, T, T)
           l2 == SlopeAdd(T1, Q)
           f2 == IF bits[i] = 1 THEN F12Mul(f1, LineAt(l2, T1, Pt)) ELSE f1
           T2 == IF bits[i] = 1 THEN StepPoint(l2, T1, Q) ELSE T1
       IN IF f2 = f2 /\ T2 = T2 THEN MillerR(Pt, Q, bits, i - 1, T2, f2) ELSE f
Miller(Pt, Q) == LET bits == NBits(BlsXReal) IN MillerR(Pt, Q, bits, Len(bits) - 1, Q, F12One)
\* Final exponentiation.  NAMED DEVIATION (CubedFinalExp): the arkworks BLS12 engine -- the reference and hence
\* the crate's -- raises to 3 (p^12 - 1)/q, the CUBE of the reduced ate pairing (cubing is an automorphism of
\* the order-q group GT).  3 (p^12 - 1)/q = (p^6 - 1) (p^2 + 1) * 3 (p^4 - p^2 + 1)/q.
P2 == NMul(Pm, Pm)
HardNum == NMul(NFromNat(3), NAdd(NSub(NMul(P2, P2), P2), NFromNat(1)))
ASSUME NMod(HardNum, Qm) = NMod(NFromNat(0), Qm)                       \* q divides the cyclotomic value
HardExp == NDiv(HardNum, Qm)
FinalExp(f) == LET f1 == F12Mul(F12Conj(f), F12Inv(f))
                   f2 == F12Mul(F12Pow(f1, P2), f1)
               IN F12Pow(f2, HardExp)
PairingSpec(Pt, Q) == IF Pt = SWInf \/ Q = SWInf THEN F12One ELSE FinalExp(Miller(Pt, Q))
F12Bytes(a) == BNPad(a[1][1][1], 48) \o BNPad(a[1][1][2], 48) \o BNPad(a[1][2][1], 48) \o BNPad(a[1][2][2], 48)
            \o BNPad(a[1][3][1], 48) \o BNPad(a[1][3][2], 48) \o BNPad(a[2][1][1], 48) \o BNPad(a[2][1][2], 48)
            \o BNPad(a[2][2][1], 48) \o BNPad(a[2][2][2], 48) \o BNPad(a[2][3][1], 48) \o BNPad(a[2][3][2], 48)
F12Of(u) == LET c(i) == NMod(SubSeq(u, 48 * (i - 1) + 1, 48 * i), Pm) IN
  << << <<c(1), c(2)>>, <<c(3), c(4)>>, <<c(5), c(6)>> >>, << <<c(7), c(8)>>, <<c(9), c(10)>>, <<c(11), c(12)>> >> >>

\* ---- the observation tables -----------------------------------------------------
Rec == ndJsonDeserialize(IOEnv.TRACE)
VARIABLES l, tab
pvars == <<l, tab>>
Has(e, f) == f \in DOMAIN e
IsEvent(kind) == l <= Len(Rec) /\ Rec[l].k = kind /\ ~Has(Rec[l], "force") /\ ~Has(Rec[l], "panic") /\ l' = l + 1
PInit == l = 1 /\ tab = {}
\* functional and injective: (grp, key) <-> bytes
Consistent(grp, key, bytes) == \A t \in tab : t[1] = grp => ((t[2] = key) <=> (t[3] = bytes))
Observe(grp, key, bytes) == Consistent(grp, key, bytes) /\ tab' = tab \cup {<<grp, key, bytes>>}
RECURSIVE SumTerms(_, _, _)
SumTerms(ts, i, acc) == IF i > Len(ts) THEN acc ELSE SumTerms(ts, i + 1, MAdd(Qm, acc, NMod(ts[i], Qm)))

TReset == IsEvent("reset") /\ UNCHANGED tab          \* tables persist across segments of one file
TGen == IsEvent("blsgen") /\ LET e == Rec[l] IN
          /\ e.ours = e.ref /\ e.ours_unc = e.ref_unc
          /\ (e.grp = "G1") => (G1GenOK(e.x, e.y) /\ NEq(e.xr, G1xReal) /\ NEq(e.yr, G1yReal))
          /\ (e.grp = "G2") => G2GenOK(e.x, e.y)
          /\ Observe(e.grp, MOne(Qm), e.ours)                         \* the generator is exponent 1
\* The scalar multiple itself is recomputed here from the generator with the affine group law above (G1 over
\* Fp, G2 over Fp2) and compared with the coordinates in the uncompressed serialisation: x then y, each
\* coordinate 48 bytes little-endian per Fp component (c0 then c1 over Fp2); the top two bits of the very last
\* byte are flags (bit 6 = point at infinity).
Coord(u, i) == SubSeq(u, 48 * (i - 1) + 1, 48 * i)
NoFlags(c) == [c EXCEPT ![48] = c[48] % 64]
InfFlag(u) == (u[Len(u)] \div 64) % 2 = 1
MulGrounded(e, key) ==
  LET u == e.ours_unc IN
  IF e.grp = "G1"
  THEN LET pt == SWMul(key, G1Gen) IN
       /\ Len(u) = 96
       /\ IF pt = SWInf THEN InfFlag(u)
          ELSE ~InfFlag(u) /\ NEq(Coord(u, 1), pt[1]) /\ NEq(NoFlags(Coord(u, 2)), pt[2])
  ELSE LET pt == SW2Mul(key, G2Gen) IN
       /\ Len(u) = 192
       /\ IF pt = SWInf THEN InfFlag(u)
          ELSE /\ ~InfFlag(u)
               /\ NEq(Coord(u, 1), pt[1][1]) /\ NEq(Coord(u, 2), pt[1][2])
               /\ NEq(Coord(u, 3), pt[2][1]) /\ NEq(NoFlags(Coord(u, 4)), pt[2][2])
TMul == IsEvent("blsmul") /\ LET e == Rec[l] key == SumTerms(e.terms, 1, MZero(Qm)) IN
          /\ e.ours = e.ref /\ e.ours_unc = e.ref_unc /\ e.cross
          /\ (Has(e, "ground") => MulGrounded(e, key))
          /\ e.ours_sum = e.ours                                       \* (sum of scalars) * G = sum of (scalar * G)
          /\ Observe(e.grp, key, e.ours)
\* grounded pairing events: the output is recomputed here -- a*G1 and b*G2 by the affine group laws, then
\* Miller loop and final exponentiation above -- and compared byte for byte; and e(G1,G2)^(ab) is recomputed
\* by exponentiation in Fp12 from the recorded e(G1,G2)
PairGrounded(e) == e.ours = F12Bytes(PairingSpec(SWMul(NMod(e.a, Qm), G1Gen), SW2Mul(NMod(e.b, Qm), G2Gen)))
PowGrounded(e, key) == e.ours = F12Bytes(F12Pow(F12Of(e.gt), key))
TPair == IsEvent("blspair") /\ LET e == Rec[l] key == MMul(Qm, NMod(e.a, Qm), NMod(e.b, Qm)) IN
          /\ e.ours = e.ref /\ e.ours_pow = e.ref_pow
          /\ (Has(e, "ground") => PairGrounded(e))
          /\ (Has(e, "gt") => PowGrounded(e, key))
          /\ e.ours_pow = e.ours                                       \* e(aG1, bG2) = e(G1, G2)^(ab)
          /\ Observe("GT", key, e.ours)
\* a product of pairings (multi_pairing; multi_miller_loop then final_exponentiation on prepared inputs; the product
\* of the single pairings): the exponent is the sum of the products a_i b_i
RECURSIVE SumProd(_, _, _, _)
SumProd(xa, xb, i, acc) == IF i > Len(xa) THEN acc
                           ELSE SumProd(xa, xb, i + 1, MAdd(Qm, acc, MMul(Qm, NMod(xa[i], Qm), NMod(xb[i], Qm))))
TMPair == IsEvent("blsmpair") /\ LET e == Rec[l] key == SumProd(e.aa, e.bb, 1, MZero(Qm)) IN
          /\ Len(e.aa) = Len(e.bb)
          /\ e.ours = e.ref /\ e.ours_ml_fe = e.ours /\ e.ours_prod = e.ours
          /\ Observe("GT", key, e.ours)
\* multi-scalar multiplication over bases a_i*G with scalars s_i: the exponent is the sum of the a_i s_i
TMsmG == IsEvent("blsmsm") /\ LET e == Rec[l] key == SumProd(e.aa, e.ss, 1, MZero(Qm)) IN
          /\ Len(e.aa) = Len(e.ss) /\ e.ours = e.ref /\ Observe(e.grp, key, e.ours)
\* configuration constants of the tower and the two curves: identical to the reference engine's
TBlsConst == IsEvent("blsconst") /\ LET e == Rec[l] IN e.ours = e.ref /\ Len(e.ours) > 0 /\ UNCHANGED tab
\* the Frobenius endomorphism x -> x^(p^i) agrees with plain exponentiation (no precomputed coefficient
\* enters the right-hand side) and with the reference engine on the same x
TFrob == IsEvent("blsfrob") /\ LET e == Rec[l] IN
           e.x = e.xr /\ e.ours_frob = e.ours_pow /\ e.ours_frob = e.ref_frob /\ UNCHANGED tab
\* deserialisation of arbitrary strings (validated and unchecked) and the cofactor operations on the
\* resulting curve points: same verdicts, same points
TDeser == IsEvent("blsdeser") /\ LET e == Rec[l] IN
           /\ e.ours_ok = e.ref_ok /\ e.ours_re = e.ref_re
           /\ e.ours_unchecked_ok = e.ref_unchecked_ok /\ e.ours_ure = e.ref_ure
           /\ ("ours_mulcof" \in DOMAIN e.cof) =>
                 \* (clear_cofactor may use any multiple of the cofactor -- the reference uses the effective one --
                 \*  so only "lands in the subgroup" is required of it)
                 /\ e.cof.ours_clear_insub /\ e.cof.ref_clear_insub /\ e.cof.ours_mulcof = e.cof.ref_mulcof
                 /\ e.cof.ours_mulinv = e.cof.ref_mulinv /\ e.cof.ours_insub = e.cof.ref_insub
                 /\ e.ours_ok = e.cof.ours_insub               \* validated deserialisation accepts exactly the subgroup
           /\ UNCHANGED tab
\* curve points given by coordinates whose y sits on the boundary that decides the sign bit of the compressed
\* form: both engines must write the same bytes for P and -P, and read back the same point from them
TPt == IsEvent("blspt") /\ LET e == Rec[l] IN
         /\ e.ours_ok /\ e.ref_ok /\ e.on_curve
         /\ e.ours_c = e.ref_c /\ e.ours_u = e.ref_u /\ e.ours_nc = e.ref_nc
         /\ e.ours_back = e.ref_back /\ e.ours_back = e.ours_u          \* compress then decompress is the identity
         /\ SWOn(<<e.x, e.y>>, MOne(Pm))
         /\ UNCHANGED tab
\* uncompressed strings with a canonical or a non-canonical (c + p) base-field coordinate: validated ("v") and
\* unchecked ("u") readers of both engines give the same verdict and read back the same value; a non-canonical
\* coordinate is never accepted (the base field's reader checks canonicity in every mode)
TRaw == IsEvent("blsraw") /\ LET e == Rec[l] IN
          /\ e.ours_ok_v = e.ref_ok_v /\ e.ours_re_v = e.ref_re_v
          /\ e.ours_ok_u = e.ref_ok_u /\ e.ours_re_u = e.ref_re_u
          /\ (e.what = "canonical") => (e.ours_ok_v /\ e.ours_ok_u /\ e.ours_re_v = e.b /\ e.ours_re_u = e.b)
          /\ (e.what # "canonical") => (~e.ours_ok_v /\ ~e.ours_ok_u)
          /\ UNCHANGED tab
TForce == l <= Len(Rec) /\ Has(Rec[l], "force") /\ l' = l + 1 /\ UNCHANGED tab
PNext == TReset \/ TGen \/ TMul \/ TPair \/ TBlsConst \/ TFrob \/ TDeser \/ TPt \/ TRaw \/ TMPair \/ TMsmG \/ TForce
PSpec == PInit /\ [][PNext]_pvars
\* non-degeneracy and bilinearity as a state invariant over what has been observed (maintained step by step by
\* Observe; not re-checked in every state because it is quadratic in the table size)
InvTables == \A t1 \in tab : \A t2 \in tab : t1[1] = t2[1] => ((t1[2] = t2[2]) <=> (t1[3] = t2[3]))
TraceAccepted ==
  LET d == TLCGet("stats").diameter IN
  IF d - 1 = Len(Rec) THEN TRUE ELSE Print(<<"TRACE-REJECTED", d>>, FALSE)
=============================================================================
