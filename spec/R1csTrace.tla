----------------------------- MODULE R1csTrace -----------------------------
(* Trace specification for the R1CS layer: events recorded while synthesising *)
(* the real gadgets (arkworks build) on fresh constraint systems.             *)
(*   gadget   : honest synthesis (C13): satisfied iff the native operation    *)
(*              succeeds, output = native result                              *)
(*   hint     : synthesis with a substituted prover hint / offered coordinates*)
(*              (C14): satisfied => output = native result and native accepts *)
(*   lazy_*   : the lazily evaluated variable, one event per forcing call     *)
(*              (C13): values never change, constraints only on the single    *)
(*              transition into "both present"                                *)
(*   shape, pubinput, groth16 : circuit shape, public inputs, pinned keys     *)
(*              (C15)                                                         *)
(* State: the lazy variable under observation, the two forcing costs (bound   *)
(* on first observation) and the shape registry (bound on first observation). *)
EXTENDS Gadgets, BN, RealParams, Json, IOUtils
BNIdent(b) == b
BNToBytes(n, len) == BNPad(BNStripTo(n, 1), len)

Rec == ndJsonDeserialize(IOEnv.TRACE)
VARIABLES l, lz, cost, shape
rvars == <<l, lz, cost, shape>>
Has(e, f) == f \in DOMAIN e
IsEvent(kind) == l <= Len(Rec) /\ Rec[l].k = kind /\ ~Has(Rec[l], "force") /\ ~Has(Rec[l], "panic") /\ l' = l + 1
Aff(rep) == ToAffine(rep)
RepOK(rep) == Len(rep) = 4 /\ (\A i \in 1..4 : NLess(rep[i], P)) /\ ExtOK(rep)
NoLazy == [st |-> "none"]
RInit == l = 1 /\ lz = NoLazy /\ cost = [dec |-> -1, enc |-> -1, D |-> -1, N |-> -1, P |-> -1, M |-> -1, S |-> -1, T |-> -1] /\ shape = {}
TReset == IsEvent("reset") /\ lz' = NoLazy /\ UNCHANGED <<cost, shape>>

\* ---- what a gadget must compute ------------------------------------------------
EltOut(e) == Has(e.out, "elt") /\ Len(e.out.elt) = 4 /\ RepOK(e.out.elt)
OutIs(e, pt) == EltOut(e) /\ SameElement(pt, Aff(e.out.elt))
FqOut(e, v) == Has(e.out, "fq") /\ e.out.fq = v
BoolOut(e, b) == Has(e.out, "bool") /\ e.out.bool = <<b>>
Pp(e) == Aff(e.p)
Qq(e) == Aff(e.q)
Same(e) == SameElement(Pp(e), Qq(e))
\* expected satisfaction and output of an honest synthesis in prove mode
HonestOK(e) ==
  LET g == e.g IN
  CASE g = "compress" -> e.sat /\ FqOut(e, EncodeSpec(Pp(e)))
    [] g = "decompress" -> LET d == DecodeSpec(e.s) IN (e.sat <=> (d # NoPoint)) /\ (e.sat => OutIs(e, d))
    [] g = "elligator" -> e.sat /\ OutIs(e, ElligatorSpec(e.s))
    [] g = "isqrt" -> e.sat /\ Has(e.out, "flag") /\ Len(e.out.flag) = 1 /\ Has(e.out, "fq")
                       /\ NLess(e.out.fq, P) /\ SqrtRatioOK(NOne, e.s, e.out.flag[1], e.out.fq)
    [] g = "is_negative" -> e.sat /\ BoolOut(e, IsNeg(e.s))
    [] g = "is_nonnegative" -> e.sat /\ BoolOut(e, ~IsNeg(e.s))
    [] g = "abs" -> e.sat /\ FqOut(e, FAbs(e.s))
    [] g = "alloc:Fq" -> e.sat /\ FqOut(e, e.s)          \* lazy: an encoding that is never decoded is not constrained
    [] g \in {"add:E+E", "add:E+&E", "add:E+=E", "add:E+=&E", "add:E+const", "add:E+=const"} -> e.sat /\ OutIs(e, EAdd(Pp(e), Qq(e)))
    [] g \in {"sub:E-E", "sub:E-&E", "sub:E-=E", "sub:E-=&E", "sub:E-const", "sub:E-=const"} -> e.sat /\ OutIs(e, ESub(Pp(e), Qq(e)))
    [] g = "neg" -> e.sat /\ OutIs(e, ENeg(Pp(e)))
    [] g = "double" -> e.sat /\ OutIs(e, EDbl(Pp(e)))
    [] g = "scalar_mul_le" -> e.sat /\ OutIs(e, SMul(e.kb, Pp(e)))
    [] g = "is_eq" -> e.sat /\ BoolOut(e, Same(e))
    [] g = "is_neq" -> e.sat /\ BoolOut(e, ~Same(e))
    [] g = "enforce_equal" -> e.sat = Same(e)
    [] g = "enforce_not_equal" -> e.sat = ~Same(e)
    [] g = "conditional_enforce_equal" -> e.sat = (e.cond => Same(e))
    [] g = "conditional_enforce_not_equal" -> e.sat = (e.cond => ~Same(e))
    [] g = "select" -> e.sat /\ OutIs(e, IF e.cond THEN Pp(e) ELSE Qq(e))
    [] g \in {"alloc:Element", "alloc:AffinePoint", "alloc:omit_prime_order_check", "constant"} -> e.sat /\ OutIs(e, Pp(e))
    [] g = "zero" -> e.sat /\ OutIs(e, EId)
    [] OTHER -> FALSE
\* Named deviation: a gadget that must allocate witnesses (the isqrt hint) has no constraint system to
\* allocate them in when ALL its inputs are constants; arkworks reports SynthesisError::MissingCS.
NeedsWitness == {"compress", "decompress", "elligator", "isqrt", "alloc:Fq"}
TGadgetNoCS == IsEvent("gadget") /\ LET e == Rec[l] IN e.mode = "constant" /\ e.err = "MissingCS" /\ e.g \in NeedsWitness
               /\ UNCHANGED <<lz, cost, shape>>
\* effective satisfaction: with all-constant inputs arkworks reports an unsatisfiable constant
\* relation as a synthesis error instead of an unsatisfied system
ConstUnsat(e) == e.mode = "constant" /\ e.err \in {"AssignmentMissing", "Unsatisfiable"}
TGadget == IsEvent("gadget") /\ LET e0 == Rec[l] IN
             /\ (e0.err = "" /\ e0.has_sat) \/ ConstUnsat(e0)
             /\ RepOK(e0.p) /\ RepOK(e0.q) /\ NLess(e0.s, P)
             \* Named deviation: on all-constant operands ark-r1cs-std's Boolean::conditional_enforce_equal
             \* rejects a constant mismatch whatever the condition is, so the conditional forms behave
             \* as the unconditional ones there.
             /\ HonestOK([e0 EXCEPT !.sat = (e0.err = "" /\ e0.sat),
                                    !.cond = IF e0.mode = "constant" /\ e0.g \in {"conditional_enforce_equal", "conditional_enforce_not_equal"} THEN TRUE ELSE e0.cond])
           /\ UNCHANGED <<lz, cost, shape>>

\* ---- soundness against substituted hints / offered coordinates (C14) -------------
Sound(e) ==
  LET g == e.g IN
  CASE g = "isqrt" -> Has(e.out, "flag") /\ Len(e.out.flag) = 1 /\ Has(e.out, "fq") /\ NLess(e.out.fq, P)
                       /\ SqrtRatioOK(NOne, e.s, e.out.flag[1], e.out.fq)
    [] g = "decompress" -> DecodeSpec(e.s) # NoPoint /\ OutIs(e, DecodeSpec(e.s))
    [] g = "elligator" -> OutIs(e, ElligatorSpec(e.s))
    [] g = "compress" -> FqOut(e, EncodeSpec(Pp(e)))
    [] g \in {"alloc:Element", "alloc:AffinePoint"} ->
          \* whatever coordinates are offered, the variable handed back is a valid element,
          \* and it is the offered element whenever the offer was a valid representative
          /\ EltOut(e) /\ OnCurve(Aff(e.out.elt)) /\ Valid(Aff(e.out.elt))
          /\ (OnCurve(Pp(e)) /\ Valid(Pp(e))) => SameElement(Pp(e), Aff(e.out.elt))
    [] OTHER -> FALSE
THint == IsEvent("hint") /\ LET e == Rec[l] IN
           /\ NLess(e.s, P)
           /\ (e.err = "" /\ e.has_sat /\ e.sat) => Sound(e)
           \* an honest offer must be accepted (completeness of witnessing)
           /\ (e.g \in {"alloc:Element", "alloc:AffinePoint"} /\ e.class = "valid") => (e.err = "" /\ e.sat)
         /\ UNCHANGED <<lz, cost, shape>>

\* ---- the lazy variable, one event per forcing call ---------------------------------
TLazyNew == IsEvent("lazy_new") /\ LET e == Rec[l] IN
              /\ e.ok /\ e.from \in {"encoding", "element"}
              /\ lz' = [st |-> IF e.from = "encoding" THEN "Encoding" ELSE "Element",
                        from |-> e.from, s |-> e.s, pt |-> Aff(e.p), orig |-> Aff(e.p), nc |-> e.nc, nw |-> e.nw,
                        valid |-> IF e.from = "encoding" THEN DecodeSpec(e.s) # NoPoint ELSE TRUE]
              /\ UNCHANGED <<cost, shape>>
\* the pair of values the variable denotes, fixed at creation
LzEnc == IF lz.from = "encoding" THEN lz.s ELSE EncodeSpec(lz.pt)
LzElt == IF lz.from = "encoding" THEN DecodeSpec(lz.s) ELSE lz.pt
Bind(c, field, delta) == IF c[field] = -1 THEN [c EXCEPT ![field] = delta] ELSE c
GenPt == DecodeSpec(FOfNat(8))
\* "S" / "T": v := select(cond, v, w) against a second variable w = 2B that already holds BOTH its encoding and its
\* element (created and forced before v, so that its constraints are not attributed to v); "S" takes w, "T" keeps v.
\* Either way the result is a fresh variable holding only the selected ELEMENT.
IsMutator(op) == op \in {"D", "N", "P", "M", "S", "T"}
OtherPt == EDbl(GenPt)
Mutated(op, pt) == CASE op = "D" -> EDbl(pt) [] op = "N" -> ENeg(pt) [] op = "P" -> EAdd(pt, GenPt) [] op = "M" -> ESub(pt, GenPt)
                     [] op = "S" -> OtherPt [] op = "T" -> pt
TLazyOp == IsEvent("lazy_op") /\ LET e == Rec[l] IN
             /\ lz.st \in LazyStates
             /\ IF IsMutator(e.op)
                THEN \* in-place group operation: forces the element, then the variable denotes the NEW element only
                     /\ lz.valid
                     /\ LET delta == e.nc - lz.nc
                            forced == IF lz.st = "Encoding" THEN cost.dec ELSE 0
                        IN IF (lz.st = "Encoding" /\ cost.dec = -1) \/ e.op \in {"S", "T"}
                           THEN delta >= 0 /\ cost' = cost        \* (how many constraints a selection emits may depend on what its operands have cached)
                           ELSE delta >= forced /\ cost' = Bind(cost, e.op, delta - forced) /\ cost'[e.op] = delta - forced
                     /\ lz' = [lz EXCEPT !.st = "Element", !.from = "element", !.pt = Mutated(e.op, LzElt), !.nc = e.nc, !.nw = e.nw]
                ELSE IF e.op = "Q"
                THEN \* enforce_equal against a second variable of the same value: compares ELEMENTS, so this variable's
                     \* element is forced (an invalid encoding makes the system unsatisfiable from here on)
                     /\ e.nc >= lz.nc /\ cost' = cost
                     /\ lz' = [lz EXCEPT !.st = LazyAfterForceElement(lz.st), !.nc = e.nc, !.nw = e.nw]
                ELSE LET wantsEnc == e.op = "C"
                         st2 == IF wantsEnc THEN LazyAfterForceEncoding(lz.st) ELSE LazyAfterForceElement(lz.st)
                         delta == e.nc - lz.nc
                         field == IF wantsEnc THEN "enc" ELSE "dec"
                     IN /\ IF st2 = lz.st THEN delta = 0 /\ e.nw = lz.nw /\ cost' = cost     \* repeated forcing emits nothing
                           ELSE delta > 0 /\ cost' = Bind(cost, field, delta) /\ cost'[field] = delta
                        /\ lz' = [lz EXCEPT !.st = st2, !.nc = e.nc, !.nw = e.nw]
                        \* the values never change, and they are the values of the CURRENT element
                        /\ (e.op = "C") => (Has(e.val, "fq") /\ e.val.fq = LzEnc)
                        /\ (e.op = "V" /\ lz.valid) => (Has(e.val, "elt") /\ Len(e.val.elt) = 4 /\ SameElement(LzElt, Aff(e.val.elt)))
             /\ UNCHANGED shape
\* the variable the observed one was cloned from still denotes the original element (clones do not share state)
TLazyOrig == IsEvent("lazy_orig") /\ LET e == Rec[l] IN
               /\ lz.st \in LazyStates
               /\ Len(e.elt) = 4 /\ SameElement(lz.orig, Aff(e.elt))
               /\ UNCHANGED <<lz, cost, shape>>
TLazyEnd == IsEvent("lazy_end") /\ LET e == Rec[l] IN
              /\ lz.st \in LazyStates /\ e.nc = lz.nc
              \* satisfied unless an invalid encoding was actually decoded
              /\ e.sat = (lz.valid \/ (lz.from = "encoding" /\ lz.st = "Encoding"))
              /\ lz' = NoLazy /\ UNCHANGED <<cost, shape>>

\* ---- circuit shape (C15) -------------------------------------------------------------
ShapeOf(e) == <<e.nc, e.ni, e.nw, e.mh>>
TShape == IsEvent("shape") /\ LET e == Rec[l] key == <<e.g, e.mode>> IN
            /\ \A t \in shape : t[1] = key => t[2] = ShapeOf(e)          \* same variables and matrices for every input, setup or prove
            /\ shape' = shape \cup {<<key, ShapeOf(e)>>}
            /\ (e.has_sat /\ e.mode = "circuit") => e.sat
            /\ UNCHANGED <<lz, cost>>
TPubInput == IsEvent("pubinput") /\ LET e == Rec[l] enc == EncodeSpec(Aff(e.p)) IN
               /\ e.instance = <<NOne, enc>>               \* the constant-one variable plus exactly one instance variable
               /\ e.tcf = <<enc>>                          \* = the element's public-input representation
               /\ UNCHANGED <<lz, cost, shape>>
RECURSIVE EncAll(_, _)
EncAll(ps, i) == IF i > Len(ps) THEN <<>> ELSE <<EncodeSpec(Aff(ps[i]))>> \o EncAll(ps, i + 1)
TGroth == IsEvent("groth16") /\ LET e == Rec[l]
                                    pis == EncAll(e.publics, 1) \o (IF Has(e, "public_fq") /\ Len(e.public_fq) > 0 THEN <<e.public_fq>> ELSE <<>>)
                                IN
            /\ e.verified = TRUE                                        \* a proof under the pinned proving key verifies under the pinned verifying key
            /\ \A i \in 1..Len(e.wrong_rejected) : e.wrong_rejected[i]   \* and is rejected for any other public input
            /\ e.pi = pis /\ e.instance = <<NOne>> \o pis
            /\ UNCHANGED <<lz, cost, shape>>
TForce == l <= Len(Rec) /\ Has(Rec[l], "force") /\ l' = l + 1 /\ UNCHANGED <<cost, shape>>
          /\ lz' = IF Rec[l].k \in {"lazy_op", "lazy_end", "lazy_new"} THEN NoLazy ELSE lz
\* after a forced lazy event the remaining events of that variable are skipped
TLazySkip == l <= Len(Rec) /\ Rec[l].k \in {"lazy_op", "lazy_end", "lazy_orig"} /\ lz = NoLazy /\ ~Has(Rec[l], "force") /\ l' = l + 1 /\ UNCHANGED <<lz, cost, shape>>

RNext == TReset \/ TGadget \/ TGadgetNoCS \/ THint \/ TLazyNew \/ TLazyOp \/ TLazyOrig \/ TLazyEnd \/ TShape \/ TPubInput \/ TGroth \/ TForce \/ TLazySkip
RSpec == RInit /\ [][RNext]_rvars
TraceAccepted ==
  LET d == TLCGet("stats").diameter IN
  IF d - 1 = Len(Rec) THEN TRUE ELSE Print(<<"TRACE-REJECTED", d>>, FALSE)
=============================================================================
