----------------------------- MODULE DecafImpl -----------------------------
(* L2: the algorithms as the crate codes them, transcribed step by step.     *)
(*   EncodeImpl    vartime_compress_to_field  (ark_curve/encoding.rs, min_curve/element.rs) *)
(*   DecodeImpl    vartime_decompress                                         *)
(*   ElligatorImpl elligator_map              (ark_curve/elligator.rs, min_curve/element.rs) *)
(*   ExtAdd/ExtDbl/ExtNeg, Ladder             (min_curve/element.rs)          *)
(* sq(num, den) stands for the square-root-of-ratio routine: ANY function    *)
(* satisfying SqrtRatioOK.  The toy model checks every L2 operator against   *)
(* L1/L0 on every input with both root signs.                                *)
EXTENDS Decaf

EncodeImpl(X, Y, Z, T, sq(_, _)) ==
  LET amd == FSub(A, D)
      u1 == FMul(FAdd(X, T), FSub(X, T))
      v  == sq(NOne, FMul(FMul(u1, amd), FSq(X)))[2]
      u2 == FAbs(FMul(v, u1))
      u3 == FSub(FMul(u2, Z), T)
  IN FAbs(FMul(FMul(FMul(amd, v), u3), X))
\* the flag the encoder ignores ("_always_square")
EncodeImplFlag(X, Y, Z, T, sq(_, _)) ==
  sq(NOne, FMul(FMul(FMul(FAdd(X, T), FSub(X, T)), FSub(A, D)), FSq(X)))[1]

\* decoding of a byte string as coded: top-bits check, canonical parse, sign, was_square
DecodeImplBytes(b, sq(_, _)) ==
  IF Len(b) # EncLen THEN [ok |-> FALSE, err |-> "InvalidSliceLength", ext |-> NoPoint]
  ELSE LET v == NFromBytes(b) IN
  IF ~NLess(v, NPow2(FieldBits)) THEN [ok |-> FALSE, err |-> "InvalidEncoding", ext |-> NoPoint]
  ELSE IF ~NLess(v, P) THEN [ok |-> FALSE, err |-> "InvalidEncoding", ext |-> NoPoint]
  ELSE LET s == NMod(v, P) IN
  IF IsNeg(s) THEN [ok |-> FALSE, err |-> "InvalidEncoding", ext |-> NoPoint]
  ELSE LET ss == FSq(s)
           u1 == FSub(NOne, ss)
           u2 == FSub(FSq(u1), FMul(FMul(FOfNat(4), D), ss))
           r  == sq(NOne, FMul(u2, FSq(u1)))
       IN IF ~r[1] THEN [ok |-> FALSE, err |-> "InvalidEncoding", ext |-> NoPoint]
          ELSE LET tsu == FMul(FMul(FTwo, s), u1)
                   v2 == IF IsNeg(FMul(tsu, r[2])) THEN FNeg(r[2]) ELSE r[2]
                   x == FMul(FMul(tsu, FSq(v2)), u2)
                   y == FMul(FMul(FAdd(NOne, ss), v2), u1)
               IN [ok |-> TRUE, err |-> "", ext |-> <<x, y, NOne, FMul(x, y)>>]
DecodeImpl(s, sq(_, _)) ==
  LET r == DecodeImplBytes(NToBytes(s, EncLen), sq) IN
  IF r.ok THEN <<r.ext[1], r.ext[2]>> ELSE NoPoint

ElligatorImpl(r0, sq(_, _)) ==
  LET r == FMul(Zeta, FSq(r0))
      den == FMul(FSub(FMul(D, r), FSub(D, A)), FSub(FMul(FSub(D, A), r), D))
      am2d == FSub(A, FMul(FTwo, D))
      num == FMul(FAdd(r, NOne), am2d)
      q == sq(NOne, FMul(num, den))
      iss == q[1]
      sgn == IF iss THEN NOne ELSE FNeg(NOne)
      isri == IF iss THEN q[2] ELSE FMul(q[2], r0)
      s0 == FMul(isri, num)
      t == FSub(FMul(FMul(FMul(FMul(FNeg(sgn), isri), s0), FSub(r, NOne)), FSq(am2d)), NOne)
      s == IF IsNeg(s0) = iss THEN FNeg(s0) ELSE s0
      E == FMul(FTwo, s) F == FAdd(NOne, FMul(A, FSq(s))) G == FSub(NOne, FMul(A, FSq(s))) H == t
  IN << FMul(E, H), FMul(F, G), FMul(F, H), FMul(E, G) >>     \* X, Y, Z, T
\* which branch of the optimised map an input takes (coverage accounting)
ElligatorBranch(r0, sq(_, _)) ==
  LET r == FMul(Zeta, FSq(r0))
      den == FMul(FSub(FMul(D, r), FSub(D, A)), FSub(FMul(FSub(D, A), r), D))
      num == FMul(FAdd(r, NOne), FSub(A, FMul(FTwo, D)))
      q == sq(NOne, FMul(num, den))
      isri == IF q[1] THEN q[2] ELSE FMul(q[2], r0)
  IN <<q[1], IsNeg(FMul(isri, num)), FMul(num, den) = NZero>>

\* ---- extended-coordinate group law of the minimal backend ----------------
CoeffK == FNeg(FDiv(FMul(FTwo, D), A))                 \* -2d/a  (COEFF_K)
ExtAdd(E1, E2) ==
  LET x1 == E1[1] y1 == E1[2] z1 == E1[3] t1 == E1[4]
      x2 == E2[1] y2 == E2[2] z2 == E2[3] t2 == E2[4]
      a == FMul(FSub(y1, x1), FSub(y2, x2))
      b == FMul(FAdd(y1, x1), FAdd(y2, x2))
      c == FMul(FMul(CoeffK, t1), t2)
      d == FMul(FAdd(z1, z1), z2)
      e == FSub(b, a) f == FSub(d, c) g == FAdd(d, c) h == FAdd(b, a)
  IN << FMul(e, f), FMul(g, h), FMul(f, g), FMul(e, h) >>
ExtDbl(E1) ==
  LET a == FSq(E1[1]) b == FSq(E1[2]) c == FAdd(FSq(E1[3]), FSq(E1[3]))
      d == FNeg(a)                                       \* "since COEFF_A is -1"
      e == FSub(FSub(FSq(FAdd(E1[1], E1[2])), a), b)
      g == FAdd(d, b) f == FSub(g, c) h == FSub(d, b)
  IN << FMul(e, f), FMul(g, h), FMul(f, g), FMul(e, h) >>
ExtNeg(E1) == << FNeg(E1[1]), E1[2], E1[3], FNeg(E1[4]) >>
ExtId == << NZero, NOne, NOne, NZero >>
\* scalar_mul_both: little-endian bits of 64-bit limbs, all 64 bits of every limb are processed
RECURSIVE LadderR(_, _, _, _)
LadderR(bits, i, acc, ins) ==
  IF i > Len(bits) THEN acc
  ELSE LET acc2 == IF bits[i] = 1 THEN ExtAdd(acc, ins) ELSE acc
           ins2 == ExtDbl(ins)
       IN IF acc2 = acc2 /\ ins2 = ins2 THEN LadderR(bits, i + 1, acc2, ins2) ELSE acc
Ladder(bits, E1) == LadderR(bits, 1, ExtId, E1)
=============================================================================
