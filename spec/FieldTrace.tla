---------------------------- MODULE FieldTrace ----------------------------
(* Trace specification for the field layer: events recorded from the three   *)
(* fields of both builds must be a behaviour of FieldAPI.                    *)
EXTENDS FieldAPI, BN, RealParams, Json, IOUtils
BNIdent(b) == b
BNToBytes(n, len) == BNPad(BNStripTo(n, 1), len)
AnyString == STRING
RealFields == {"Fq", "Fr", "Fp"}
RealModulus(f) == CASE f = "Fq" -> QReal [] f = "Fr" -> RReal [] f = "Fp" -> PReal
RealByteLen(f) == IF f = "Fp" THEN 48 ELSE 32
RealBitLen(f) == CASE f = "Fq" -> 253 [] f = "Fr" -> 251 [] f = "Fp" -> 377

Rec == ndJsonDeserialize(IOEnv.TRACE)
VARIABLE l
ftvars == <<fobs, fhseen, l>>
Has(e, f) == f \in DOMAIN e
IsEvent(kind) == l <= Len(Rec) /\ Rec[l].k = kind /\ ~Has(Rec[l], "force") /\ ~Has(Rec[l], "panic") /\ l' = l + 1

FTInit == FInit /\ l = 1
TReset == IsEvent("reset") /\ fobs' = [k |-> "init"] /\ fhseen' = {}
TFBin == IsEvent("fbin") /\ LET e == Rec[l] IN FBin(e.field, e.op, e.form, e.a, e.b) /\ fobs'.out = e.out
TFUn == IsEvent("fun") /\ LET e == Rec[l] IN FUn(e.field, e.op, e.form, e.a) /\ fobs'.none = e.none /\ (~e.none => fobs'.out = e.out)
TFPow == IsEvent("fpow") /\ LET e == Rec[l] IN FPowA(e.field, e.form, e.a, e.e) /\ fobs'.out = e.out
TFFold == IsEvent("ffold") /\ LET e == Rec[l] IN FFold(e.field, e.op, e.form, e.xs) /\ fobs'.out = e.out
TFSel == IsEvent("fsel") /\ LET e == Rec[l] IN FSelect(e.field, e.a, e.b, e.choice) /\ fobs'.out = e.out
TFEq == IsEvent("feq") /\ LET e == Rec[l] IN FEq(e.field, e.form, e.a, e.b) /\ fobs'.out = e.out
TFFrom == IsEvent("ffrom") /\ LET e == Rec[l] IN FFromInt(e.field, e.ty, e.v) /\ fobs'.out = e.out
TFLeg == IsEvent("flegendre") /\ LET e == Rec[l] IN FLegendre(e.field, e.a) /\ fobs'.out = e.out
\* plain events: the square-root contract.  In-place variants additionally report what the operand holds afterwards:
\* the result on success, the ORIGINAL value on failure (sqrt of a non-residue, inverse of zero)
TFSqrt == IsEvent("fsqrt") /\ LET e == Rec[l] m == Modulus(e.field) IN
            IF Has(e, "inv")
            THEN /\ Canon(e.field, e.a) /\ Canon(e.field, e.after)
                 /\ e.some = (Val(e.field, e.a) # MZero(m))
                 /\ IF e.some THEN MMul(m, Val(e.field, e.after), Val(e.field, e.a)) = MOne(m) ELSE NEq(e.after, e.a)
                 /\ UNCHANGED <<fobs, fhseen>>
            ELSE /\ FSqrtOK(e.field, e.a, e.some, e.y)
                 /\ Has(e, "after") => (Canon(e.field, e.after) /\ IF e.some THEN NEq(e.after, e.y) ELSE NEq(e.after, e.a))
TFSer == IsEvent("fser") /\ LET e == Rec[l] IN FSerialize(e.field, e.form, e.v) /\ fobs'.out = e.out
TFParse == IsEvent("fparse") /\ LET e == Rec[l] IN FParse(e.field, e.form, e.b) /\ fobs'.ok = e.ok /\ fobs'.out = e.out
TFReduce == IsEvent("freduce") /\ LET e == Rec[l] IN FReduce(e.field, e.form, e.endian, e.b) /\ fobs'.out = e.out
TFSerFlags == IsEvent("fserflags") /\ LET e == Rec[l] IN FSerFlags(e.field, e.ty, e.a, e.mask) /\ fobs'.out = e.out
TFDeserFlags == IsEvent("fdeserflags") /\ LET e == Rec[l] IN
                  /\ FDeserFlags(e.field, e.ty, e.b)
                  /\ fobs'.ok = e.ok /\ fobs'.err = e.err
                  /\ e.ok => (fobs'.out = e.out /\ fobs'.mask = e.mask)
TFFromStr == IsEvent("ffromstr") /\ LET e == Rec[l] IN FFromStr(e.field, e.ds) /\ fobs'.out = e.out
TFDisplay == IsEvent("fdisplay") /\ LET e == Rec[l] IN FDisplayOK(e.field, e.a, e.ds)
TFCmp == IsEvent("fcmp") /\ LET e == Rec[l] IN FCmp(e.field, e.a, e.b) /\ fobs'.out = e.out
TFHash == IsEvent("fhash") /\ LET e == Rec[l] IN FHash(e.field, e.a, e.h)
TForce == l <= Len(Rec) /\ Has(Rec[l], "force") /\ l' = l + 1 /\ fobs' = [k |-> "forced"]
          /\ fhseen' = IF Rec[l].k = "fhash" THEN {t \in fhseen : ~(t[1] = Rec[l].field /\ t[2] = Rec[l].a)} \cup {<<Rec[l].field, Rec[l].a, Rec[l].h>>} ELSE fhseen

FTNext == TReset \/ TFBin \/ TFUn \/ TFPow \/ TFFold \/ TFSel \/ TFEq \/ TFFrom \/ TFLeg \/ TFSqrt \/ TFSer \/ TFParse
          \/ TFReduce \/ TFSerFlags \/ TFDeserFlags \/ TFFromStr \/ TFDisplay \/ TFCmp \/ TFHash \/ TForce
FTSpec == FTInit /\ [][FTNext]_ftvars
TraceAccepted ==
  LET d == TLCGet("stats").diameter IN
  IF d - 1 = Len(Rec) THEN TRUE ELSE Print(<<"TRACE-REJECTED", d>>, FALSE)
=============================================================================
