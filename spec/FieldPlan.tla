------------------------------ MODULE FieldPlan ------------------------------
(* Specification -> implementation direction for C10: operand pairs chosen BY    *)
(* THE MONTGOMERY RESIDUE OF THE RESULT.  Both backends keep an element x as    *)
(* x*R mod p (R = 2^256 for Fq and Fr, 2^384 for Fp) and finish every add / sub *)
(* / mul / square with a conditional subtraction (or addition) of p over a      *)
(* borrow chain, one link per 32- or 64-bit limb.  Which links borrow depends   *)
(* only on the limbs of the unreduced result, i.e. on the residue c of the      *)
(* result: a link that is wrong shows only for results whose residue has a      *)
(* particular limb equal to 0, 2^w - 1, 2^w - p_i, p_i ... (probability 2^-32   *)
(* per multiplication under uniform sampling).  For every field, limb width,    *)
(* limb index, special limb value and fill of the lower limbs TLC builds such a  *)
(* residue c (kept small, so that the unreduced value is c + p and the          *)
(* subtraction is the selected branch), the canonical result z = c * R^-1, and   *)
(* operand pairs with x random and  y = z / x,  z - x,  x - z;  and the square   *)
(* roots of z when z is a square.  One JSON object per pair -> IOEnv.PLAN_OUT.   *)
EXTENDS ModArith, BN, RealParams, Json, IOUtils, SequencesExt, Bitwise
BNIdent(b) == b
BNToBytes(n, len) == BNPad(BNStripTo(n, 1), len)
Seeds == ndJsonDeserialize(IOEnv.PLAN_SEEDS)
FieldsSeq == <<"Fq", "Fr", "Fp">>
Mod(f) == CASE f = "Fq" -> QReal [] f = "Fr" -> RReal [] f = "Fp" -> PReal
BL(f) == IF f = "Fp" THEN 48 ELSE 32
Rdx(f) == NMod(NPow2(8 * BL(f)), Mod(f))
RInv(f) == MInv(Mod(f), Rdx(f))
N(k) == NFromNat(k)
\* limb i (0-based) of width w bits of a number given as bytes
LimbBytes(n, w, i) == SubSeq(BNPad(n, 64), (w \div 8) * i + 1, (w \div 8) * (i + 1))
AllOnes(w) == [j \in 1..(w \div 8) |-> 255]
Zeros(k) == [j \in 1..k |-> 0]
\* special values of the limb under test, relative to the modulus limb pi (as byte strings of w/8 bytes)
Special(w, pi) ==
  LET two_w == NPow2(w) IN
  << BNToBytes(N(0), w \div 8), BNToBytes(N(1), w \div 8), AllOnes(w),
     BNToBytes(NMod(NSub(two_w, pi), two_w), w \div 8),                  \* 2^w - p_i : limb + p_i wraps to 0 with a carry
     BNToBytes(NMod(NSub(NSub(two_w, pi), N(1)), two_w), w \div 8),      \* 2^w - p_i - 1 : wraps to all ones, no carry
     BNPad(pi, w \div 8),
     BNToBytes(NMod(NAdd(pi, NSub(two_w, N(1))), two_w), w \div 8) >>    \* p_i - 1
\* residue: lower limbs filled (zeros / ones / seed bytes), limb i special, one more seed limb above, rest zero
Residue(f, w, i, sv, fill, seed) ==
  LET wb == w \div 8
      low == CASE fill = 1 -> Zeros(wb * i) [] fill = 2 -> [j \in 1..(wb * i) |-> 255] [] OTHER -> SubSeq(seed, 1, wb * i)
      above == IF wb * (i + 2) + 4 <= BL(f) THEN SubSeq(seed, 33, 32 + wb) ELSE <<>>
  IN BNPad(low \o sv \o above, BL(f))
Cases(f) ==
  FlattenSeq([wi \in 1..2 |->
    LET w == IF wi = 1 THEN 32 ELSE 64
        nl == (8 * BL(f)) \div w
    IN FlattenSeq([i0 \in 1..nl |->
         LET sp == Special(w, LimbBytes(Mod(f), w, i0 - 1))
         IN FlattenSeq([k \in 1..Len(sp) |->
              [fill \in 1..3 |-> [w |-> w, limb |-> i0 - 1, sv |-> k, fill |-> fill,
                                  c |-> Residue(f, w, i0 - 1, sp[k], fill, Seeds[((i0 * 7 + k * 3 + fill) % Len(Seeds)) + 1].b \o Seeds[((i0 + k + fill) % Len(Seeds)) + 1].b)]]])])])
Recs(f) ==
  LET m == Mod(f) cs == Cases(f) ri == RInv(f) IN
  FlattenSeq([j \in 1..Len(cs) |->
    LET c == cs[j].c
        ok == NLess(c, m)
        z == MMul(m, NMod(c, m), ri)
        x == LET s == NMod(Seeds[((j * 5) % Len(Seeds)) + 1].b \o Seeds[((j * 11 + 3) % Len(Seeds)) + 1].b, m) IN IF s = MZero(m) THEN MOne(m) ELSE s
        tag == [field |-> f, w |-> cs[j].w, limb |-> cs[j].limb, sv |-> cs[j].sv, fill |-> cs[j].fill]
    IN IF ~ok THEN <<>>
       ELSE \* ... and the same value z as an OPERAND (its residue, not the result's, has the special limb): a borrow /
            \* carry primitive that mishandles an all-ones or zero limb of its input shows only here
            << [k |-> "fin", field |-> f, op |-> "sub", a |-> x, b |-> z, tag |-> tag],
               [k |-> "fin", field |-> f, op |-> "sub", a |-> z, b |-> x, tag |-> tag],
               [k |-> "fin", field |-> f, op |-> "sub", a |-> MZero(m), b |-> z, tag |-> tag],
               [k |-> "fin", field |-> f, op |-> "add", a |-> z, b |-> x, tag |-> tag],
               [k |-> "fin", field |-> f, op |-> "add", a |-> z, b |-> z, tag |-> tag],
               [k |-> "fin", field |-> f, op |-> "mul", a |-> z, b |-> x, tag |-> tag],
               [k |-> "fin", field |-> f, op |-> "mul", a |-> z, b |-> z, tag |-> tag] >> \o
            << [k |-> "fin", field |-> f, op |-> "mul", a |-> x, b |-> MDiv(m, z, x), tag |-> tag],
               [k |-> "fin", field |-> f, op |-> "add", a |-> x, b |-> MSub(m, z, x), tag |-> tag],
               [k |-> "fin", field |-> f, op |-> "sub", a |-> x, b |-> MSub(m, x, z), tag |-> tag],
               [k |-> "fin", field |-> f, op |-> "div", a |-> z, b |-> MInv(m, x), tag |-> tag] >>])
\* Pairs for equality / comparison / selection, chosen BY THE DIFFERENCE OF THE TWO MONTGOMERY RESIDUES: an
\* equality that folds limb differences into one word (xor / or / add), or a comparison that walks the limbs,
\* is wrong only for pairs whose residues differ in one limb, by the SAME mask in two limbs or in all limbs,
\* or by a swap of two limbs (2^-64 under uniform sampling).  c is a seed-derived residue with a zero top
\* byte (so every variant stays below the modulus), c' its variant; the operands are c R^-1 and c' R^-1.
XorBytes(a, b) == [k \in 1..Len(a) |-> a[k] ^^ b[k]]
MaskAt(f, w, S, mk) == LET wb == w \div 8 IN [k \in 1..BL(f) |-> IF ((k - 1) \div wb) \in S THEN mk[((k - 1) % wb) + 1] ELSE 0]
EqMasks(w, seed) == LET wb == w \div 8 IN
  << [k \in 1..wb |-> IF k = 1 THEN 1 ELSE 0], [k \in 1..wb |-> IF k = wb - 1 THEN 128 ELSE 0],
     [k \in 1..wb |-> IF k = wb THEN 0 ELSE IF seed[k] = 0 THEN 1 ELSE seed[k]], [k \in 1..wb |-> IF k = wb THEN 0 ELSE 255] >>
SwapLimbs(c, w, i, j) == LET wb == w \div 8 IN
  [k \in 1..Len(c) |-> LET li == (k - 1) \div wb IN
      IF li = i THEN c[k + wb * (j - i)] ELSE IF li = j THEN c[k - wb * (j - i)] ELSE c[k]]
EqBase(f, j) == LET sd == Seeds[((j * 3 + 1) % Len(Seeds)) + 1].b \o Seeds[((j * 5 + 2) % Len(Seeds)) + 1].b IN
  [k \in 1..BL(f) |-> IF k = BL(f) THEN 0 ELSE sd[k]]
EqVariants(f) ==
  FlattenSeq([wi \in 1..2 |->
    LET w == IF wi = 1 THEN 32 ELSE 64
        nl == (8 * BL(f)) \div w
        sets == [i \in 1..nl |-> {i - 1}] \o FlattenSeq([i \in 1..nl |-> [j \in 1..(nl - i) |-> {i - 1, i - 1 + j}]]) \o << 0..(nl - 1) >>
        prs == FlattenSeq([i \in 1..nl |-> [j \in 1..(nl - i) |-> <<i - 1, i - 1 + j>>]])
    IN FlattenSeq([si \in 1..Len(sets) |->
         LET c == EqBase(f, si + wi) ms == EqMasks(w, Seeds[((si * 7) % Len(Seeds)) + 1].b) IN
         [mi \in 1..4 |-> [c |-> c, d |-> XorBytes(c, MaskAt(f, w, sets[si], ms[mi])), w |-> w, how |-> "xor"]]])
       \o [pi \in 1..Len(prs) |-> LET c == EqBase(f, pi + 40 + wi) IN
             [c |-> c, d |-> SwapLimbs(c, w, prs[pi][1], prs[pi][2]), w |-> w, how |-> "swap"]]])
EqRecs(f) ==
  LET m == Mod(f) vs == EqVariants(f) ri == RInv(f) IN
  FlattenSeq([j \in 1..Len(vs) |->
    IF vs[j].c = vs[j].d \/ ~NLess(vs[j].d, m) THEN <<>>
    ELSE << [k |-> "fin", field |-> f, op |-> "eq", a |-> MMul(m, NMod(vs[j].c, m), ri), b |-> MMul(m, NMod(vs[j].d, m), ri),
             tag |-> [field |-> f, w |-> vs[j].w, how |-> vs[j].how]] >>])
Plan == FlattenSeq([fi \in 1..3 |-> Recs(FieldsSeq[fi]) \o EqRecs(FieldsSeq[fi])])
ASSUME TLCSet(51, Plan)
ASSUME ndJsonSerialize(IOEnv.PLAN_OUT, TLCGet(51))
ASSUME PrintT(<<"PLAN-WRITTEN", Len(TLCGet(51))>>)
VARIABLE x
Init == x = 0
Next == x' = x
=============================================================================
