---------------------------- MODULE SessionPlan ----------------------------
(* Specification -> implementation direction for the group API: TLC SIMULATES  *)
(* the Session state machine at the real parameters (random walks of Depth     *)
(* calls over four registers, every call form chosen at random), records the   *)
(* behaviour in a history variable and prints it, with the observation the     *)
(* specification expects after every step, when the walk is complete.  The     *)
(* harness (`vharness replay`) executes each behaviour on the real crate and   *)
(* the driver compares step by step: encodings of produced elements, verdicts  *)
(* of decodings, results of equality and identity tests.  Elements are tracked *)
(* by ONE representative chosen by the specification; everything compared is   *)
(* representation-independent.                                                 *)
EXTENDS Decaf, BN, RealParams, Json, IOUtils
BNIdent(b) == b
BNToBytes(n, len) == BNPad(BNStripTo(n, 1), len)
CONSTANTS Depth
PRegs == 0..3
VARIABLES preg, hist
pvars == <<preg, hist>>
Bpt == DecodeSpec(FOfNat(8))
Scalars == << <<0>>, <<1>>, <<2>>, <<3>>, <<255, 255>>, NSub(RReal, NFromNat(1)), NPow2(64), NPow2(128), NSub(NPow2(64), NFromNat(1)) >>
EncOf(pt) == EncodeBytes(pt)
PInit == preg = [i \in PRegs |-> IF i = 1 THEN Bpt ELSE EId] /\ hist = <<>>
Rec2(step, expect) == [step |-> step, expect |-> expect]
Produce(step, dst, pt) == /\ preg' = [preg EXCEPT ![dst] = pt]
                          /\ hist' = Append(hist, Rec2(step, [enc |-> EncOf(pt)]))
Observe(step, expect) == /\ UNCHANGED preg /\ hist' = Append(hist, Rec2(step, expect))
\* One random call per step.  (TLC's simulator would otherwise evaluate EVERY successor -- thousands of
\* scalar multiplications -- before choosing one; RandomElement picks the call first.)
PNext ==
  /\ Len(hist) < Depth
  \* (bound variables over singleton sets: each random choice is made exactly once per step; a LET definition
  \*  would be re-evaluated -- and re-drawn -- at every occurrence)
  /\ \E a \in {RandomElement(PRegs)} : \E b \in {RandomElement(PRegs)} : \E d \in {RandomElement(PRegs)} :
     \E form \in {RandomElement(0..40)} : \E kind \in {RandomElement(1..19)} :
     \E k \in {RandomElement(1..Len(Scalars))} : \E r0 \in {RandomElement(0..24)} :
        CASE kind \in {1, 2} -> Produce([op |-> "add", a |-> a, b |-> b, dst |-> d, form |-> form], d, EAdd(preg[a], preg[b]))
          [] kind = 3 -> Produce([op |-> "sub", a |-> a, b |-> b, dst |-> d, form |-> form], d, ESub(preg[a], preg[b]))
          [] kind = 4 -> Produce([op |-> "neg", a |-> a, dst |-> d, form |-> form], d, ENeg(preg[a]))
          [] kind = 5 -> Produce([op |-> "dbl", a |-> a, dst |-> d, form |-> form], d, EDbl(preg[a]))
          [] kind = 6 -> Produce([op |-> "torque", a |-> a, dst |-> d], d, Torque(preg[a]))
          [] kind = 7 -> Produce([op |-> "conv", a |-> a, dst |-> d, form |-> form], d, preg[a])
          [] kind = 8 -> Produce([op |-> "mul", a |-> a, dst |-> d, form |-> form, bytes |-> BNPad(Scalars[k], 32)], d, SMul(NMod(Scalars[k], RReal), preg[a]))
          [] kind = 9 -> Produce([op |-> "mulbig", a |-> a, dst |-> d, form |-> form, bytes |-> BNPad(Scalars[k], 32)], d, SMul(Scalars[k], preg[a]))
          [] kind = 10 -> Produce([op |-> "ell", dst |-> d, bytes |-> FOfNat(r0 * (form + 1))], d, ElligatorSpec(FOfNat(r0 * (form + 1))))
          [] kind = 11 -> LET bytes == EncOf(preg[a]) IN     \* decode the encoding of a register: accepted, same element
               /\ preg' = [preg EXCEPT ![d] = DecodeSpec(EncodeSpec(preg[a]))]
               /\ hist' = Append(hist, Rec2([op |-> "dec", dst |-> d, form |-> form, bytes |-> bytes], [ok |-> TRUE, err |-> "", enc |-> bytes]))
          [] kind = 12 -> LET v == NAdd(EncodeSpec(preg[a]), NFromNat((form % 3) + 1))      \* a neighbour of an encoding
                              bytes == BNToBytes(v, 32)
                              r == DecodeBytes(bytes) IN
               /\ preg' = IF r.ok THEN [preg EXCEPT ![d] = r.pt] ELSE preg
               /\ hist' = Append(hist, Rec2([op |-> "dec", dst |-> d, form |-> form, bytes |-> bytes],
                                            IF r.ok THEN [ok |-> TRUE, err |-> "", enc |-> bytes] ELSE [ok |-> FALSE, err |-> r.err]))
          [] kind = 17 -> LET srcs == CASE form % 3 = 0 -> <<a, b>> [] form % 3 = 1 -> <<a, b, d, a>> [] OTHER -> <<>> IN
               Produce([op |-> "sum", srcs |-> srcs, dst |-> d, form |-> form], d, ESum([i \in 1..Len(srcs) |-> preg[srcs[i]]]))
          [] kind = 18 -> LET srcs == IF form % 2 = 0 THEN <<a, b>> ELSE <<a, b, a>>
                              ks == [i \in 1..Len(srcs) |-> Scalars[((k + i) % Len(Scalars)) + 1]] IN
               Produce([op |-> "msm", srcs |-> srcs, ks |-> [i \in 1..Len(ks) |-> BNPad(ks[i], 32)], dst |-> d, form |-> form], d,
                       ESum([i \in 1..Len(srcs) |-> SMul(NMod(ks[i], RReal), preg[srcs[i]])]))
          [] kind = 19 -> LET x == FOfNat(r0 * (form + 1)) y == FOfNat(r0 + form) IN
               Produce([op |-> "h2c", dst |-> d, bytes |-> x, bytes2 |-> y], d, EAdd(ElligatorSpec(x), ElligatorSpec(y)))
          [] kind = 13 -> Observe([op |-> "enc", a |-> a, form |-> form], [out |-> EncOf(preg[a])])
          [] kind \in {14, 15} -> Observe([op |-> "eq", a |-> a, b |-> b, form |-> form], [out |-> SameElement(preg[a], preg[b])])
          [] OTHER -> Observe([op |-> "isid", a |-> a, form |-> form], [out |-> (preg[a][1] = NZero)])
PSpec == PInit /\ [][PNext]_pvars
\* print each complete behaviour once
EmitPlan == (Len(hist) = Depth) =>
   PrintT(<<"PLANJSON", ToJson([steps |-> [i \in 1..Len(hist) |-> hist[i].step], expect |-> [i \in 1..Len(hist) |-> hist[i].expect]])>>)
=============================================================================
