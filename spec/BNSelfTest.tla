---------------------------- MODULE BNSelfTest ----------------------------
(* Keeps the Java evaluator of BN honest.                                   *)
(* (1) On every operand pair of BNSelfTestData the interpreted TLA+ bodies   *)
(*     (BNRef, generated from BN by renaming) and the overridden operators   *)
(*     agree for add, sub, mul, less, shr1, bits -- including lengths.       *)
(* (2) mod/div: direct comparison with the (slow, bit-by-bit) reference on   *)
(*     small operands; on big operands the evaluator's (q, r) is checked     *)
(*     against the characterisation a = q*m + r /\ r < m using the reference *)
(*     multiplication and addition (q, r are unique, so this pins them).     *)
(* (3) powmod: direct comparison on small operands, then the exponent laws   *)
(*     and Fermat on the three real moduli with the evaluator only.          *)
EXTENDS BN, BNRef, BNSelfTestData, TLC

Seq2Set(s) == {s[i] : i \in 1..Len(s)}
PairOK(pr) == LET a == pr[1] b == pr[2] IN
  /\ BNAdd(a, b) = RFAdd(a, b)
  /\ BNMul(a, b) = RFMul(a, b)
  /\ BNLess(a, b) = RFLess(a, b)
  /\ (~BNLess(a, b)) => BNSub(a, b) = RFSub(a, b)
  /\ BNShr1(a) = RFShr1(a)
  /\ BNBits(a) = RFBits(a)
  /\ BNEq(BNSub(BNAdd(a, b), b), a)
DivModOK(a, m) == LET q == BNDiv(a, m) r == BNMod(a, m) IN
  /\ RFLess(r, m)
  /\ RFEq(RFAdd(RFMul(q, m), r), a)
  /\ Len(r) = RFMax(Len(m), 1) /\ Len(q) = RFMax(Len(a), 1)
SmallDivModOK(a, m) == BNMod(a, m) = RFMod(a, m) /\ BNDiv(a, m) = RFDiv(a, m)
PowOK(x, e, m) == BNPowMod(x, e, m) = RFPowMod(x, e, m)
PowIdent(x, e, f, m) ==
  /\ BNPowMod(x, BNAdd(e, f), m) = BNMod(BNMul(BNPowMod(x, e, m), BNPowMod(x, f, m)), m)
  /\ BNPowMod(x, BNAdd(e, e), m) = BNMod(BNMul(BNPowMod(x, e, m), BNPowMod(x, e, m)), m)
  /\ BNPowMod(x, <<1>>, m) = BNMod(x, m)
  /\ BNPowMod(x, <<0>>, m) = BNMod(<<1>>, m)
Pow2OK == \A k \in {0, 1, 7, 8, 9, 31, 32, 63, 64, 250, 253, 255, 256, 377} :
            /\ BNPow2(k) = RFPow2(k)
            /\ BNBits(BNPow2(k)) = [i \in 1..(k + 1) |-> IF i = k + 1 THEN 1 ELSE 0]

ASSUME \A i \in 1..Len(Pairs) : PairOK(Pairs[i]) \/ Print(<<"BN self-test pair failed", Pairs[i]>>, FALSE)
ASSUME \A i \in 1..Len(Vals) : \A j \in 1..Len(Mods) : DivModOK(Vals[i], Mods[j]) \/ Print(<<"BN self-test divmod failed", Vals[i], Mods[j]>>, FALSE)
ASSUME \A i \in 1..Len(SmallVals) : \A j \in 1..Len(SmallMods) :
          SmallDivModOK(SmallVals[i], SmallMods[j]) \/ Print(<<"BN self-test small divmod failed", i, j>>, FALSE)
ASSUME \A i \in 1..Len(SmallVals) : \A e \in Seq2Set(SmallExp) : \A j \in 1..Len(SmallMods) :
          PowOK(SmallVals[i], e, SmallMods[j]) \/ Print(<<"BN self-test pow failed", i, e, j>>, FALSE)
ASSUME \A i \in 1..Len(Vals) : \A e \in Seq2Set(BigExp) : \A j \in 1..3 :
          PowIdent(Vals[i], e, BigExp[1], Mods[j]) \/ Print(<<"BN self-test pow identity failed", i, e, j>>, FALSE)
ASSUME Pow2OK
\* Fermat on the three real moduli: x^(m-1) = 1 for x # 0 mod m
ASSUME \A j \in 1..3 : \A i \in 1..Len(Vals) :
          LET x == BNMod(Vals[i], Mods[j]) IN
          BNIsZero(x) \/ BNPowMod(x, BNSub(Mods[j], <<1>>), Mods[j]) = BNOfLen(1, Len(Mods[j]))
ASSUME PrintT("BN self-test passed")
VARIABLE x
Init == x = 0
Next == x' = x
=============================================================================
