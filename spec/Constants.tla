------------------------------ MODULE Constants ------------------------------
(* C17: every public derived constant as an equation over the modulus / the   *)
(* curve.  No value here is read from the Rust: moduli and curve parameters   *)
(* come from the protocol specification (RealParams), the conventional        *)
(* multiplicative generators (22, 5, 15) and -5 from utils/field_properties.py*)
(* and the BLS12-377 parameter x from the curve's definition.                 *)
(* Action KonstOK(build, field, name, val): `val` is the constant as the      *)
(* harness read it from the crate (canonical integer, little-endian bytes).   *)
EXTENDS Decaf
CONSTANTS FieldNames, Modulus(_), ByteLen(_), KnownPrimeFactors(_), ConvGenerator(_)

N(k) == NFromNat(k)
PM1of(f) == NSub(Modulus(f), N(1))
\* two-adicity by definition: the largest s with 2^s | p - 1
RECURSIVE TwoAdOf(_, _)
TwoAdOf(n, s) == IF NIsOdd(n) THEN s ELSE TwoAdOf(NShr1(n), s + 1)
TwoAd(f) == TwoAdOf(PM1of(f), 0)
RECURSIVE ShrBy(_, _)
ShrBy(n, k) == IF k = 0 THEN n ELSE ShrBy(NShr1(n), k - 1)
TraceOf(f) == ShrBy(PM1of(f), TwoAd(f))
\* least quadratic non-residue (the rule of utils/field_properties.py)
RECURSIVE LeastNR(_, _)
LeastNR(f, k) == IF ~MIsSquare(Modulus(f), N(k)) THEN k ELSE LeastNR(f, k + 1)
IsGenerator(f, g) == \A i \in 1..Len(KnownPrimeFactors(f)) :
   MPow(Modulus(f), g, NDiv(PM1of(f), KnownPrimeFactors(f)[i])) # MOne(Modulus(f))
Gen(f) == NMod(N(ConvGenerator(f)), Modulus(f))
VEq(f, val, expected) == NEq(val, expected)             \* numeric equality, any representation length

FieldKonstOK(f, name, val) ==
  LET m == Modulus(f) s == TwoAd(f) t == TraceOf(f) IN
  CASE name = "MODULUS" -> NEq(val, m)
    [] name = "MODULUS_MINUS_ONE_DIV_TWO" -> NEq(NAdd(NAdd(val, val), N(1)), m)
    [] name = "MODULUS_BIT_SIZE" -> NLess(m, NPow2(val[1] + 256 * val[2])) /\ ~NLess(m, NPow2(val[1] + 256 * val[2] - 1))
    [] name = "TWO_ADICITY" -> val[1] + 256 * val[2] = s
    [] name = "TRACE" -> NEq(val, t) /\ NIsOdd(val) /\ NEq(NMul(val, NPow2(s)), PM1of(f))
    [] name = "TRACE_MINUS_ONE_DIV_TWO" -> NEq(NAdd(NAdd(val, val), N(1)), t)
    [] name = "MULTIPLICATIVE_GENERATOR" -> NEq(val, Gen(f)) /\ IsGenerator(f, NMod(val, m))
    [] name = "TWO_ADIC_ROOT_OF_UNITY" ->
          /\ NEq(val, MPow(m, Gen(f), t))
          /\ MPow(m, val, NPow2(s - 1)) = MNeg(m, N(1))          \* primitive 2^s-th root of unity
    [] name = "QUADRATIC_NON_RESIDUE_TO_TRACE" ->
          /\ NEq(val, MPow(m, N(LeastNR(f, 2)), t))
          /\ MPow(m, val, NPow2(s - 1)) = MNeg(m, N(1))
    [] name = "QUADRATIC_NON_RESIDUE" -> NEq(val, NSub(m, N(5))) /\ ~MIsSquare(m, val)
    [] name = "FIELD_SIZE_POWER_OF_TWO" -> NEq(val, NMod(NPow2(8 * ByteLen(f)), m))
    [] name = "ZERO" -> NEq(val, N(0))
    [] name = "ONE" -> NEq(val, N(1))
    [] name = "MINUS_ONE" -> NEq(val, NSub(m, N(1)))
    [] name = "MODULUS_PLUS_ONE_DIV_FOUR" -> NEq(NMul(val, N(4)), NAdd(m, N(1)))
    [] name = "SQRT_PRECOMP_KIND" ->     \* 1 = TonelliShanks, 3 = Case3Mod4 (admissible only when p = 3 mod 4)
          (val[1] = 3 => NMod(m, N(4)) = NMod(N(3), N(4))) /\ val[1] \in {1, 3}
    [] OTHER -> FALSE

\* ---- curve constants (P = q here) -----------------------------------------
AmD == FSub(A, D)
CurveKonstOK(name, val) ==
  CASE name = "ZETA" -> NEq(val, Zeta) /\ ~IsSquare(Zeta)
    [] name = "ZETA_TO_TRACE" -> NEq(val, ZetaToTrace)
    [] name = "COEFF_A" -> NEq(val, FNeg(NOne)) /\ A = FNeg(NOne)
    [] name = "COEFF_D" -> NEq(val, FOfNat(3021)) /\ D = FOfNat(3021) /\ ~IsSquare(D) /\ ~IsSquare(FSub(D, A))
    [] name = "COEFF_K" -> NEq(val, FNeg(FDiv(FMul(FTwo, D), A)))
    [] name = "MONT_COEFF_A" -> NEq(val, FDiv(FMul(FTwo, FAdd(A, D)), AmD))
    [] name = "MONT_COEFF_B" -> NEq(val, FDiv(FOfNat(4), AmD))
    [] name = "COFACTOR" -> NEq(val, N(1))
    [] name = "COFACTOR_INV" -> NEq(val, N(1))
    [] OTHER -> FALSE
\* the generator: decode(8), and 8 is the least non-zero field value that decodes
GeneratorOK(x, y) ==
  /\ DecodeSpec(FOfNat(8)) # NoPoint /\ SameElement(DecodeSpec(FOfNat(8)), <<x, y>>)
  /\ \A k \in 1..7 : DecodeSpec(FOfNat(k)) = NoPoint
  /\ In2E(<<x, y>>)
  /\ SMul(KnownPrimeFactors("order")[1], <<x, y>>) \in Reps(EId)     \* r * B = identity (r prime, B # O: order exactly r)
  /\ ~SameElement(<<x, y>>, EId)

\* ---- the extension tower of BLS12-377: Fp2 = Fp[u]/(u^2 - beta), beta = -5; Fp6 = Fp2[v]/(v^3 - xi), xi = u;
\*      Fp12 = Fp6[w]/(w^2 - v).  Frobenius coefficients are powers of the non-residues:
\*        FP2_C1[i]  = beta^((p^i - 1)/2)          (in Fp)
\*        FP6_C1[i]  = xi^((p^i - 1)/3),  FP6_C2[i] = xi^((2 p^i - 2)/3),  FP12_C1[i] = xi^((p^i - 1)/6)   (in Fp2)
Pf == Modulus("Fp")
Beta == NSub(Pf, N(5))
F2(a0, a1) == <<NMod(a0, Pf), NMod(a1, Pf)>>
F2One == F2(N(1), N(0))
Xi == F2(N(0), N(1))
F2Mul(a, b) == << MAdd(Pf, MMul(Pf, a[1], b[1]), MMul(Pf, Beta, MMul(Pf, a[2], b[2]))),
                  MAdd(Pf, MMul(Pf, a[1], b[2]), MMul(Pf, a[2], b[1])) >>
RECURSIVE F2PowR(_, _, _, _)
F2PowR(base, bits, i, acc) ==                      \* most significant bit first
  IF i = 0 THEN acc
  ELSE LET sq == F2Mul(acc, acc)
           nx == IF bits[i] = 1 THEN F2Mul(sq, base) ELSE sq
       IN IF nx = nx THEN F2PowR(base, bits, i - 1, nx) ELSE acc
F2Pow(base, e) == LET bits == NBits(e) IN F2PowR(base, bits, Len(bits), F2One)
RECURSIVE PPow(_)
PPow(i) == IF i = 0 THEN N(1) ELSE NMul(PPow(i - 1), Pf)
TowerKonstOK(name, i, val) ==
  LET pi == PPow(i) IN
  CASE name = "FROBENIUS_COEFF_FP2_C1" -> NEq(val[1], MPow(Pf, Beta, NDiv(NSub(pi, N(1)), N(2))))
    [] name = "FROBENIUS_COEFF_FP6_C1" -> F2(val[1], val[2]) = F2Pow(Xi, NDiv(NSub(pi, N(1)), N(3))) /\ NLess(val[1], Pf) /\ NLess(val[2], Pf)
    [] name = "FROBENIUS_COEFF_FP6_C2" -> F2(val[1], val[2]) = F2Pow(Xi, NDiv(NSub(NMul(N(2), pi), N(2)), N(3))) /\ NLess(val[1], Pf) /\ NLess(val[2], Pf)
    [] name = "FROBENIUS_COEFF_FP12_C1" -> F2(val[1], val[2]) = F2Pow(Xi, NDiv(NSub(pi, N(1)), N(6))) /\ NLess(val[1], Pf) /\ NLess(val[2], Pf)
    [] name = "FP2_NONRESIDUE" -> NEq(val[1], Beta) /\ ~MIsSquare(Pf, Beta)
    [] name = "FP6_NONRESIDUE" -> F2(val[1], val[2]) = Xi
    [] OTHER -> FALSE

\* ---- BLS12-377 -------------------------------------------------------------
BlsX == KnownPrimeFactors("blsx")[1]
BlsKonstOK(name, val) ==
  LET x == BlsX
      x2 == NMul(x, x)
      q == Modulus("Fq")
      p == Modulus("Fp")
      xm1 == NSub(x, N(1))
  IN
  CASE name = "X" -> NEq(val, x)
         /\ NEq(q, NAdd(NSub(NMul(x2, x2), x2), N(1)))                            \* q = x^4 - x^2 + 1
         /\ NEq(NMul(NSub(p, x), N(3)), NMul(NMul(xm1, xm1), q))                    \* p = (x-1)^2 q / 3 + x
    [] name = "G1_COFACTOR" -> NEq(NMul(val, N(3)), NMul(xm1, xm1))               \* h1 = (x-1)^2 / 3
    [] name = "G1_COFACTOR_INV" -> MMul(q, val, NMod(NDiv(NMul(xm1, xm1), N(3)), q)) = MOne(q)
    [] name = "G2_COFACTOR_TIMES_INV" -> NMod(val, q) = MOne(q)                     \* val = h2 * h2^-1 mod q as computed by the harness from both constants
    [] OTHER -> FALSE
=============================================================================
