------------------------------ MODULE SqrtPlan ------------------------------
(* Specification -> implementation direction for C09: TLC generates the      *)
(* inputs of the square-root-of-ratio routine BY THEIR 2-PRIMARY COMPONENT.   *)
(* With g = zeta^t the generator of the 2-Sylow subgroup (order 2^s, s = 47)  *)
(* and u in the odd-order subgroup (u = w^(2^s)), x = g^e * u has 2-primary   *)
(* exponent e.  e ranges over every value of each table-digit window of the   *)
(* Sarkar algorithm (7+8+8+8+8+8 bits) with the other windows zero, single    *)
(* bits, the primitive roots of unity of every order 2^k, all-ones; plus      *)
(* zeta^k and zero operands.  Each ratio x is presented as (x*v, v), (x, 1)   *)
(* and (1, 1/x).  Output: one JSON object per input pair -> IOEnv.PLAN_OUT.   *)
EXTENDS PrimeField, BN, RealParams, Json, IOUtils, FiniteSets, SequencesExt
BNIdent(b) == b
BNToBytes(n, len) == BNPad(BNStripTo(n, 1), len)

Seeds == ndJsonDeserialize(IOEnv.PLAN_SEEDS)            \* random byte strings supplied by the driver
W(i) == LET w == NMod(Seeds[((i - 1) % Len(Seeds)) + 1].b, P) IN IF w = NZero THEN NOne ELSE w
G == ZetaToTrace
OddPart(w) == NPowMod(w, NPow2(TwoAdicity), P)
RECURSIVE Pow2Int(_)
Pow2Int(k) == IF k = 0 THEN 1 ELSE 2 * Pow2Int(k - 1)
\* the integer v * 2^lo as a number of the sort
Shifted(v, lo) == NMul(NFromNat(v), NPow2(lo))

\* Table-digit windows (offset, width) of the discrete-log digits t the table-driven routine looks up:
\*   the s_lookup digits q0'..q5 sit at bits 0-7, 8-14, 15-22, 23-30, 31-38, 39-46 of t;
\*   the g-table indices are the byte-aligned digits of t (offsets 0, 8, 16, 24, 32)
\*   and of (t+1) >> 1 in the final product (offsets 1, 9, 17, 25, 33, 41 of t).
Layout == << <<0, 8>>, <<8, 7>>, <<15, 8>>, <<23, 8>>, <<31, 8>>, <<39, 8>>,
             <<16, 8>>, <<24, 8>>, <<32, 8>>, <<40, 7>>,
             <<1, 8>>, <<9, 8>>, <<17, 8>>, <<25, 8>>, <<33, 8>>, <<41, 6>> >>
Targets == FlattenSeq([i \in 1..Len(Layout) |-> [v \in 1..Pow2Int(Layout[i][2]) |-> Shifted(v - 1, Layout[i][1])]])
ASSUME TLCSet(21, Targets)
TargetsC == TLCGet(21)
NDigit == 2 * Len(TargetsC)
NBit   == 47
NRoot  == 48
NOnes  == 2
NZeta  == 24
NCases == NDigit + NBit + NRoot + NOnes + NZeta
TwoN == NPow2(TwoAdicity)
\* t^-1 of the odd number TraceT modulo 2^s (Euler: phi(2^s) = 2^(s-1))
ASSUME TLCSet(22, NPowMod(TraceT, NSub(NPow2(TwoAdicity - 1), NFromNat(1)), TwoN))
TraceInv == TLCGet(22)
\* the exponent e with (g^e)^TraceT * g^t = 1, i.e. the routine's discrete log of the ratio is exactly t
ExpForDlog(t) == NMod(NMul(NSub(TwoN, NMod(t, TwoN)), TraceInv), TwoN)
\* case index -> [kind, e]
CaseOf(i) ==
  IF i <= Len(TargetsC) THEN [kind |-> "dlogdigit", e |-> ExpForDlog(TargetsC[i])]
  ELSE IF i <= NDigit THEN [kind |-> "expdigit", e |-> TargetsC[i - Len(TargetsC)]]
  ELSE IF i <= NDigit + NBit THEN [kind |-> "bit", e |-> NPow2(i - NDigit - 1)]
  ELSE IF i <= NDigit + NBit + NRoot THEN
     LET k == i - NDigit - NBit - 1 IN     \* primitive 2^k-th root of unity: e = 2^(s-k)  (k = 0: e = 0)
     [kind |-> "root", e |-> IF k = 0 THEN NFromNat(0) ELSE NPow2(TwoAdicity - k)]
  ELSE IF i <= NDigit + NBit + NRoot + NOnes THEN
     [kind |-> "ones", e |-> NSub(NPow2(TwoAdicity - (i - NDigit - NBit - NRoot - 1)), NFromNat(1))]
  ELSE [kind |-> "zeta", e |-> NFromNat(i - NDigit - NBit - NRoot - NOnes - 1)]
XOf(i) == LET c == CaseOf(i) IN
  IF c.kind = "zeta" THEN NPowMod(Zeta, c.e, P)
  ELSE IF c.kind = "root" THEN NPowMod(G, c.e, P)                   \* pure roots of unity (u = 1)
  ELSE FMul(NPowMod(G, c.e, P), OddPart(W(i)))
PlanRec(n) ==
  LET i == ((n - 1) \div 3) + 1
      p == ((n - 1) % 3) + 1
      x == XOf(i)
      v == W(i + 7)
  IN [k |-> "sqrtin", kind |-> CaseOf(i).kind, case |-> i,
      num |-> CASE p = 1 -> FMul(x, v) [] p = 2 -> x [] p = 3 -> NOne,
      den |-> CASE p = 1 -> v [] p = 2 -> NOne [] p = 3 -> FInv(x)]
\* ratios whose discrete log is a boundary value of the whole 47-bit range (all digits all-ones etc.)
SpecialDlogs == << NSub(TwoN, NFromNat(1)), NSub(TwoN, NFromNat(2)), NPow2(TwoAdicity - 1), NSub(NPow2(TwoAdicity - 1), NFromNat(1)),
                   NFromNat(1), NFromNat(2), NFromNat(255), NFromNat(256), NSub(NPow2(39), NFromNat(1)), NSub(TwoN, NPow2(39)) >>
SpecialRecs == FlattenSeq([i \in 1..Len(SpecialDlogs) |->
   LET x == FMul(NPowMod(G, ExpForDlog(SpecialDlogs[i]), P), OddPart(W(i + 3))) v == W(i + 9) IN
   << [k |-> "sqrtin", kind |-> "dlogspecial", case |-> 0, num |-> FMul(x, v), den |-> v],
      [k |-> "sqrtin", kind |-> "dlogspecial", case |-> 0, num |-> x, den |-> NOne],
      [k |-> "sqrtin", kind |-> "dlogspecial", case |-> 0, num |-> NOne, den |-> FInv(x)] >>])
ZeroRecs == << [k |-> "sqrtin", kind |-> "zero", case |-> 0, num |-> NZero, den |-> NZero],
               [k |-> "sqrtin", kind |-> "zero", case |-> 0, num |-> NZero, den |-> W(1)],
               [k |-> "sqrtin", kind |-> "zero", case |-> 0, num |-> W(2), den |-> NZero],
               [k |-> "sqrtin", kind |-> "one", case |-> 0, num |-> W(3), den |-> W(3)],
               [k |-> "sqrtin", kind |-> "one", case |-> 0, num |-> NOne, den |-> NOne] >>
Plan == ZeroRecs \o SpecialRecs \o [j \in 1..(3 * NCases) |-> PlanRec(j)]
ASSUME NMod(NMul(TraceT, TraceInv), TwoN) = NMod(NFromNat(1), TwoN)
\* the dlog construction is right: x^t * g^t' = 1 for a sample target
ASSUME LET t == TargetsC[300] IN FMul(NPowMod(NPowMod(G, ExpForDlog(t), P), TraceT, P), NPowMod(G, t, P)) = NOne
ASSUME G # NOne /\ NPowMod(G, NPow2(TwoAdicity - 1), P) = FNeg(NOne)     \* g generates the 2-Sylow subgroup
ASSUME ndJsonSerialize(IOEnv.PLAN_OUT, Plan)
ASSUME PrintT(<<"PLAN-WRITTEN", Len(Plan)>>)
VARIABLE x
Init == x = 0
Next == x' = x
=============================================================================
