----------------------------- MODULE DecodePlan -----------------------------
(* Specification -> implementation direction for C02: TLC enumerates the       *)
(* structured near-misses of valid encodings and computes, from DecodeBytes,   *)
(* the verdict, the error class and the DecodeClass of every string.           *)
(* Bases: encodings of k*B for small and special k, of Elligator outputs of    *)
(* the driver's seeds, and of the identity.  Mutations of a base s:            *)
(*   s itself; every alias s + j*q below 2^256; q - s; s +- 1; every single    *)
(*   bit flip (256); bits 253, 254, 255 set; plus absolute edge values.        *)
(* One JSON object per string -> IOEnv.PLAN_OUT.                               *)
EXTENDS Decaf, BN, RealParams, Json, IOUtils, SequencesExt
BNIdent(b) == b
BNToBytes(n, len) == BNPad(BNStripTo(n, 1), len)
Seeds == ndJsonDeserialize(IOEnv.PLAN_SEEDS)
NBases == 6
B == DecodeSpec(FOfNat(8))
Base(i) == CASE i = 1 -> NZero
             [] i = 2 -> FOfNat(8)
             [] i = 3 -> EncodeSpec(EAdd(B, B))
             [] i = 4 -> EncodeSpec(SMul(NSub(RReal, NFromNat(1)), B))
             [] OTHER -> EncodeSpec(ElligatorSpec(NMod(Seeds[i].b, P)))
ASSUME TLCSet(31, [i \in 1..NBases |-> Base(i)])
Bases == TLCGet(31)
Two256 == NPow2(256)
Fit32(n) == BNToBytes(n, 32)
\* aliases s + j*q (j >= 1) that still fit in 32 bytes
RECURSIVE Aliases(_, _)
Aliases(v, acc) == LET nx == NAdd(v, P) IN IF NLess(nx, Two256) THEN Aliases(nx, Append(acc, [kind |-> "alias", v |-> Fit32(nx)])) ELSE acc
BitOf(s, k) == (s[(k \div 8) + 1] \div BNTwoPow(k % 8)) % 2
Flip(s, k) == IF BitOf(s, k) = 1 THEN NSub(s, NPow2(k)) ELSE NAdd(s, NPow2(k))
SetBit(s, k) == IF BitOf(s, k) = 1 THEN s ELSE NAdd(s, NPow2(k))
Mutations(s) ==
  << [kind |-> "valid", v |-> s], [kind |-> "negated", v |-> Fit32(NMod(NSub(P, s), Two256))],
     [kind |-> "plus1", v |-> Fit32(NAdd(s, NFromNat(1)))] >>
  \o (IF s = NZero THEN <<>> ELSE << [kind |-> "minus1", v |-> Fit32(NSub(s, NFromNat(1)))] >>)
  \o Aliases(s, <<>>)
  \o [k \in 1..256 |-> [kind |-> "bitflip", v |-> Fit32(Flip(s, k - 1))]]
  \o [k \in 1..3 |-> [kind |-> "highbit", v |-> Fit32(SetBit(s, 252 + k))]]
Absolutes ==
  << [kind |-> "abs", v |-> Fit32(NFromNat(0))], [kind |-> "abs", v |-> Fit32(NFromNat(1))],
     [kind |-> "abs", v |-> Fit32(NSub(P, NFromNat(1)))], [kind |-> "abs", v |-> Fit32(P)],
     [kind |-> "abs", v |-> Fit32(NAdd(P, NFromNat(1)))], [kind |-> "abs", v |-> Fit32(NPow2(253))],
     [kind |-> "abs", v |-> Fit32(NSub(NPow2(253), NFromNat(1)))], [kind |-> "abs", v |-> Fit32(NSub(Two256, NFromNat(1)))],
     [kind |-> "abs", v |-> Fit32(NShr1(NSub(P, NFromNat(1))))], [kind |-> "abs", v |-> Fit32(NSub(P, NFromNat(2)))] >>
\* Valid encodings at the edges of the value range: the first few accepted values below and above each
\* boundary (the modulus itself, and the limb / byte boundaries 2^k).  Found by scanning with DecodeSpec.
Accepts(v) == NLess(v, P) /\ DecodeSpec(NMod(v, P)) # NoPoint
RECURSIVE ScanDown(_, _, _, _)
ScanDown(v, want, budget, acc) ==
  IF want = 0 \/ budget = 0 \/ ~NLess(NFromNat(1), v) THEN acc
  ELSE LET w == NSub(v, NFromNat(1)) IN
       IF Accepts(w) THEN ScanDown(w, want - 1, budget - 1, Append(acc, [kind |-> "edge_valid", v |-> Fit32(w)]))
       ELSE ScanDown(w, want, budget - 1, acc)
RECURSIVE ScanUp(_, _, _, _)
ScanUp(v, want, budget, acc) ==
  IF want = 0 \/ budget = 0 \/ ~NLess(v, P) THEN acc
  ELSE IF Accepts(v) THEN ScanUp(NAdd(v, NFromNat(1)), want - 1, budget - 1, Append(acc, [kind |-> "edge_valid", v |-> Fit32(v)]))
       ELSE ScanUp(NAdd(v, NFromNat(1)), want, budget - 1, acc)
Boundaries == <<P, NPow2(252), NPow2(248), NPow2(240), NPow2(224), NPow2(192), NPow2(128), NPow2(64), NPow2(32), NPow2(16), NPow2(8)>>
EdgeValid == FlattenSeq([i \in 1..Len(Boundaries) |-> ScanDown(Boundaries[i], 4, 40, <<>>) \o ScanUp(Boundaries[i], 3, 40, <<>>)])
ASSUME TLCSet(33, EdgeValid)
EdgeValidC == TLCGet(33)
\* non-canonical aliases v + q of the edge-valid encodings (a carry out of a low limb is what a limb-wise
\* comparison with the modulus can get wrong)
EdgeAliases == FlattenSeq([i \in 1..Len(EdgeValidC) |->
   LET w == NAdd(EdgeValidC[i].v, P) IN IF NLess(w, Two256) THEN << [kind |-> "alias_edge", v |-> Fit32(w)] >> ELSE <<>>])
\* comparison boundaries: the modulus with one 32-bit limb moved by +-1 and the lower limbs all zero / all ones,
\* and the first accepted values just below each of those
LimbStep(j) == NPow2(32 * j)
CmpBoundary == FlattenSeq([j1 \in 1..8 |->
   LET j == j1 - 1
       up == NAdd(P, LimbStep(j))
       dn == NSub(P, LimbStep(j))
       lowmask == NSub(LimbStep(j), NFromNat(1))
       dnOnes == NAdd(NSub(dn, NMod(dn, LimbStep(j))), lowmask)          \* limb j of q minus 1, lower limbs all ones
       upZero == NSub(up, NMod(up, LimbStep(j)))                          \* limb j of q plus 1, lower limbs zero
   IN (IF NLess(up, Two256) THEN << [kind |-> "cmp", v |-> Fit32(up)], [kind |-> "cmp", v |-> Fit32(upZero)] >> ELSE <<>>)
      \o << [kind |-> "cmp", v |-> Fit32(dn)], [kind |-> "cmp", v |-> Fit32(dnOnes)] >>
      \o ScanDown(NAdd(dn, NFromNat(1)), 2, 12, <<>>) \o ScanDown(NAdd(dnOnes, NFromNat(1)), 2, 12, <<>>)])
\* Valid encodings with a word pattern: one 64-bit (or 32-bit) limb all ones, all zeros, or equal to the modulus'
\* limb (+-1), the other limbs taken from a filler value.  These are the operands on which a hand-written
\* carry / borrow chain (negation q - s, comparison with q, limb-wise parsing) takes its rare branches.
\* Found by scanning with DecodeSpec in steps of one unit of a limb that does not carry the pattern.
RECURSIVE ScanStep(_, _, _, _, _)
ScanStep(v, step, want, budget, acc) ==
  IF want = 0 \/ budget = 0 \/ ~NLess(v, P) THEN acc
  ELSE IF Accepts(v) THEN ScanStep(NAdd(v, step), step, want - 1, budget - 1, Append(acc, [kind |-> "limb", v |-> Fit32(v)]))
       ELSE ScanStep(NAdd(v, step), step, want, budget - 1, acc)
LimbOf(v, j, w) == NMod(NDiv(v, NPow2(w * j)), NPow2(w))
WithLimb(v, j, w, x) == NAdd(NSub(v, NMul(LimbOf(v, j, w), NPow2(w * j))), NMul(x, NPow2(w * j)))
Filler(i) == NMod(NMul(Bases[5], NFromNat(2 * i + 3)), NShr1(P))
LimbPatterns(w) == LET nl == 256 \div w
                       ones == NSub(NPow2(w), NFromNat(1)) IN
  FlattenSeq([j1 \in 1..nl |-> LET j == j1 - 1
                                    qj == LimbOf(P, j, w)
                                    pats == << ones, NFromNat(0), qj, NAdd(qj, NFromNat(1)) >>
                                             \o (IF qj = NZero THEN <<>> ELSE << NSub(qj, NFromNat(1)) >>)
                                    step == IF j = 0 THEN NPow2(w) ELSE NFromNat(1) IN
     FlattenSeq([k \in 1..Len(pats) |->
        IF NLess(ones, pats[k]) THEN <<>>
        ELSE ScanStep(WithLimb(Filler(5 * j1 + k), j, w, pats[k]), step, IF w = 64 THEN 4 ELSE 2, 60, <<>>)])])
ASSUME TLCSet(34, LimbPatterns(64) \o LimbPatterns(32))
LimbPatternsC == TLCGet(34)
Cases == FlattenSeq([i \in 1..NBases |-> Mutations(Bases[i])]) \o Absolutes \o EdgeValidC \o EdgeAliases \o CmpBoundary \o LimbPatternsC
PlanRec(i) == LET c == Cases[i] r == DecodeBytes(c.v) IN
  [k |-> "decin", kind |-> c.kind, b |-> c.v, entries |-> IF i <= 300 \/ c.kind = "abs" THEN "all" ELSE "one",
   ok |-> r.ok, err |-> r.err, cls |-> DecodeClass(c.v)]
ASSUME TLCSet(32, Cases)
ASSUME ndJsonSerialize(IOEnv.PLAN_OUT, [i \in 1..Len(TLCGet(32)) |-> LET c == TLCGet(32)[i] r == DecodeBytes(c.v) IN
         [k |-> "decin", kind |-> c.kind, b |-> c.v, entries |-> IF i <= 300 \/ c.kind \in {"abs", "edge_valid", "alias_edge", "cmp", "limb"} THEN "all" ELSE "one",
          ok |-> r.ok, err |-> r.err, cls |-> DecodeClass(c.v)]])
ASSUME PrintT(<<"PLAN-WRITTEN", Len(TLCGet(32))>>)
VARIABLE x
Init == x = 0
Next == x' = x
=============================================================================
