------------------------------- MODULE Decaf -------------------------------
(* L1: the decaf377 specification.  EncodeSpec / DecodeSpec / ElligatorSpec  *)
(* are the UNOPTIMISED *Spec functions of ristretto.sage (Decaf_1_1_Point,   *)
(* cofactor 4, isoMagic = 1) -- the definition the protocol specification    *)
(* refers to -- not the algorithms the crate runs.  The byte layer is the    *)
(* 32-byte little-endian canonical form (EncLen bytes here; toy fields use 1 *)
(* or 2 bytes).                                                              *)
EXTENDS Edwards
CONSTANTS EncLen,        \* length of an encoding in bytes
          FieldBits      \* bit length of P (253 for decaf377)
NoPoint == <<>>

\* ---- field-element level ------------------------------------------------
EncodeSpec(Pt) ==
  LET x == Pt[1] y == Pt[2] IN
  IF x = NZero \/ y = NZero THEN NZero
  ELSE LET sr == XSqrt(FSub(NOne, FMul(A, FSq(x))))
           altx == FDiv(FMul(x, y), sr)
           s == IF IsNeg(altx) THEN FDiv(FAdd(NOne, sr), x) ELSE FDiv(FSub(NOne, sr), x)
       IN FAbs(s)
\* s a canonical field element; NoPoint when rejected
DecodeSpec(s) ==
  IF IsNeg(s) THEN NoPoint
  ELSE IF s = NZero THEN EId
  ELSE LET s2 == FSq(s)
           disc == FAdd(FAdd(FMul(FSq(A), FSq(s2)), FMul(FMul(FTwo, FSub(A, FMul(FTwo, D))), s2)), NOne)
       IN IF ~IsSquare(disc) THEN NoPoint
          ELSE LET t0 == XSqrt(disc)
                   altx == FDiv(FMul(FTwo, s), t0)
                   t == IF IsNeg(altx) THEN FNeg(t0) ELSE t0
               IN IF t = NZero \/ FAdd(NOne, FMul(A, s2)) = NZero THEN NoPoint
                  ELSE << FDiv(FMul(FTwo, s), FAdd(NOne, FMul(A, s2))), FDiv(FSub(NOne, FMul(A, s2)), t) >>
FromJacobi(s, t) ==
  IF s = NZero THEN EId
  ELSE << FDiv(FMul(FTwo, s), FAdd(NOne, FMul(A, FSq(s)))), FDiv(FSub(NOne, FMul(A, FSq(s))), t) >>
ElligatorSpec(r0) ==
  LET r == FMul(Zeta, FSq(r0))
      dma == FSub(D, A)
      den == FMul(FSub(FMul(D, r), dma), FSub(FMul(dma, r), D))
      am2d == FSub(A, FMul(FTwo, D))
  IN IF den = NZero THEN EId
     ELSE LET n1 == FDiv(FMul(FAdd(r, NOne), am2d), den)
              n2 == FMul(r, n1)
              c  == FDiv(FMul(FSub(r, NOne), FSq(am2d)), den)
          IN IF IsSquare(n1)
             THEN FromJacobi(XSqrt(n1), FSub(FNeg(c), NOne))
             ELSE FromJacobi(FNeg(XSqrt(n2)), FSub(FMul(r, c), NOne))
HashToCurveSpec(r1, r2) == EAdd(ElligatorSpec(r1), ElligatorSpec(r2))

\* ---- byte level -----------------------------------------------------------
EncodeBytes(Pt) == NToBytes(EncodeSpec(Pt), EncLen)
\* result of decoding an arbitrary byte string through any entry point
DecodeBytes(b) ==
  IF Len(b) # EncLen THEN [ok |-> FALSE, err |-> "InvalidSliceLength", pt |-> NoPoint]
  ELSE LET v == NFromBytes(b) IN
       IF ~NLess(v, P) THEN [ok |-> FALSE, err |-> "InvalidEncoding", pt |-> NoPoint]
       ELSE LET pt == DecodeSpec(NMod(v, P)) IN
            IF pt = NoPoint THEN [ok |-> FALSE, err |-> "InvalidEncoding", pt |-> NoPoint]
            ELSE [ok |-> TRUE, err |-> "", pt |-> pt]
\* which case of the definition a string of the right length falls in (coverage accounting)
DecodeClass(b) ==
  IF Len(b) # EncLen THEN "length"
  ELSE LET v == NFromBytes(b) IN
       IF ~NLess(v, NPow2(FieldBits)) THEN "highbits"
       ELSE IF ~NLess(v, P) THEN "noncanonical"
       ELSE LET s == NMod(v, P) IN
            IF IsNeg(s) THEN "negative"
            ELSE IF s = NZero THEN "zero"
            ELSE IF DecodeSpec(s) = NoPoint THEN (IF FSq(s) = NOne THEN "minusone" ELSE "nonsquare")
            ELSE "valid"
=============================================================================
