--------------------------- MODULE SessionTrace ---------------------------
(* Trace specification: an ndjson trace recorded from the real crate is a    *)
(* behaviour of Session.  One trace action per event kind, each of the form  *)
(*   IsEvent(kind) /\ <spec action with the logged arguments>                *)
(*                 /\ <logged result = what the action produced/observed>    *)
(* The spec leaves only the representative of a produced element free; the   *)
(* logged internal coordinates [X,Y,Z,T] bind it.  No witness or hint from   *)
(* the harness is trusted: every value is recomputed here from the inputs.   *)
(* Acceptance: POSTCONDITION TraceAccepted (all events consumed).            *)
(* An event carrying "force" is not checked: its logged result is installed  *)
(* (used by the driver to continue past an already reported violation).      *)
EXTENDS Session, BN, RealParams, Json, IOUtils
AnyString == STRING
BNIdent(b) == b
BNToBytes(n, len) == BNPad(BNStripTo(n, 1), len)

Rec == ndJsonDeserialize(IOEnv.TRACE)
VARIABLE l
tvars == <<reg, hseen, obs, l>>

Has(e, f) == f \in DOMAIN e
IsEvent(kind) == l <= Len(Rec) /\ Rec[l].k = kind /\ ~Has(Rec[l], "force") /\ ~Has(Rec[l], "panic") /\ l' = l + 1
\* the affine point denoted by logged extended coordinates
Aff(rep) == ToAffine(rep)
RepOK(rep) == Len(rep) = 4 /\ (\A i \in 1..4 : NLess(rep[i], P)) /\ ExtOK(rep)
Bound(e) == RepOK(e.rep) /\ reg'[e.dst] = Aff(e.rep)

TInit == SInit /\ l = 1
TReset == IsEvent("reset") /\ reg' = [i \in Regs |-> EId] /\ hseen' = {} /\ obs' = [k |-> "init"]
TConst == IsEvent("const") /\ LET e == Rec[l] IN Const(e.name, e.dst) /\ Bound(e)
TDecode == IsEvent("dec") /\ LET e == Rec[l] IN
             /\ Decode(e.entry, e.b, e.dst)
             /\ obs'.ok = e.ok /\ obs'.err = e.err
             /\ e.ok => Bound(e)
TEll == IsEvent("ell") /\ LET e == Rec[l] IN NLess(e.r0, P) /\ Elligator(e.r0, e.dst) /\ Bound(e)
TH2c == IsEvent("h2c") /\ LET e == Rec[l] IN NLess(e.r1, P) /\ NLess(e.r2, P) /\ HashToCurve(e.r1, e.r2, e.dst) /\ Bound(e)
TCtor == IsEvent("ctor") /\ LET e == Rec[l] IN
           IF e.some THEN RepOK(e.rep) /\ Construct(e.name, e.dst, Aff(e.rep))
           ELSE UNCHANGED <<reg, hseen>> /\ obs' = [k |-> "ctor"]     \* "no element" is always an admissible answer
TConv == IsEvent("conv") /\ LET e == Rec[l] IN Convert(e.name, e.a, e.dst) /\ Bound(e)
\* rescale: same POINT (not only same element), different projective scaling
TRescale == IsEvent("rescale") /\ LET e == Rec[l] IN
             /\ RepOK(e.rep) /\ Aff(e.rep) = reg[e.a]
             /\ reg' = [reg EXCEPT ![e.dst] = reg[e.a]] /\ obs' = [k |-> "conv"] /\ UNCHANGED hseen
TTorque == IsEvent("torque") /\ LET e == Rec[l] IN TorqueOp(e.a, e.dst) /\ Bound(e)
TBin == IsEvent("bin") /\ LET e == Rec[l] IN Bin(e.op, e.form, e.a, e.b, e.dst) /\ Bound(e)
TNeg == IsEvent("neg") /\ LET e == Rec[l] IN Neg(e.form, e.a, e.dst) /\ Bound(e)
TDbl == IsEvent("dbl") /\ LET e == Rec[l] IN Dbl(e.form, e.a, e.dst) /\ Bound(e)
TSum == IsEvent("sum") /\ LET e == Rec[l] IN Sum(e.form, e.srcs, e.dst) /\ Bound(e)
TMul == IsEvent("mul") /\ LET e == Rec[l] IN Mul(e.form, e.kb, e.a, e.dst) /\ Bound(e)
TMsm == IsEvent("msm") /\ LET e == Rec[l] IN Msm(e.form, e.ks, e.srcs, e.dst) /\ Bound(e)
TEnc == IsEvent("enc") /\ LET e == Rec[l] IN Encode(e.form, e.a) /\ obs'.out = e.out
TEncF == IsEvent("encf") /\ LET e == Rec[l] IN EncodeField(e.form, e.a) /\ obs'.out = e.out
TEq == IsEvent("eq") /\ LET e == Rec[l] IN ObsEq(e.form, e.a, e.b) /\ obs'.out = e.out
TIsId == IsEvent("isid") /\ LET e == Rec[l] IN ObsIsIdentity(e.pred, e.a) /\ obs'.out = e.out
TAObs == IsEvent("aobs") /\ LET e == Rec[l] IN ObsAffineId(e.op, e.form, e.pred, e.a, e.b) /\ obs'.out = e.out
TAEnc == IsEvent("aenc") /\ LET e == Rec[l] IN ObsAffineEnc(e.op, e.form, e.a, e.b) /\ obs'.out = e.out
THash == IsEvent("hash") /\ LET e == Rec[l] IN ObsHash(e.ty, e.a, e.h)
TRt == IsEvent("rt") /\ LET e == Rec[l] IN
         /\ RoundTrip(e.form, e.entry, e.a, e.dst)
         /\ obs'.bytes = e.bytes /\ e.ok = TRUE /\ e.eq = TRUE /\ Bound(e)
TRt2 == IsEvent("rt2") /\ LET e == Rec[l] IN
         /\ ReEncode(e.entry, e.form, e.b, e.dst)
         /\ obs'.ok = e.ok /\ obs'.bytes = e.bytes
         /\ e.ok => Bound(e)
TSqrt == IsEvent("sqrt") /\ LET e == Rec[l] IN SqrtRatioCall(e.impl, e.num, e.den, e.flag, e.y)
\* continue past a reported violation: install the logged result unchecked
TForce == /\ l <= Len(Rec) /\ Has(Rec[l], "force") /\ l' = l + 1
          /\ LET e == Rec[l] IN
             /\ reg' = IF Has(e, "dst") /\ Has(e, "rep") /\ (~Has(e, "ok") \/ e.ok) THEN [reg EXCEPT ![e.dst] = Aff(e.rep)] ELSE reg
             /\ hseen' = IF e.k = "hash" THEN {t \in hseen : ~(t[1] = e.ty /\ t[2] = EncodeSpec(reg[e.a]))} \cup {<<e.ty, EncodeSpec(reg[e.a]), e.h>>} ELSE hseen
             /\ obs' = [k |-> "forced"]

TNext == TReset \/ TConst \/ TDecode \/ TEll \/ TH2c \/ TCtor \/ TConv \/ TRescale \/ TTorque
         \/ TRt \/ TRt2 \/ TSqrt \/ TBin \/ TNeg \/ TDbl \/ TSum \/ TMul \/ TMsm \/ TEnc \/ TEncF \/ TEq \/ TIsId \/ TAObs \/ TAEnc \/ THash \/ TForce
TSpec == TInit /\ [][TNext]_tvars

TraceAccepted ==
  LET d == TLCGet("stats").diameter IN
  IF d - 1 = Len(Rec) THEN TRUE
  ELSE Print(<<"TRACE-REJECTED", d>>, FALSE)
=============================================================================
