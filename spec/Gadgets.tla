------------------------------ MODULE Gadgets ------------------------------
(* R1CS layer (C13, C14, C15).                                                *)
(*  (1) Specification of what each gadget must compute: NativeOK / the output *)
(*      relation, from L0/L1 only (GadgetHonestOK, GadgetSound).              *)
(*  (2) L2 models of the constraint blocks AS CODED, as predicates            *)
(*      Sat(inputs, hints) with the outputs they force (src/ark_curve/r1cs/   *)
(*      fqvar_ext.rs, inner.rs); the toy model MC_Gadgets enumerates all      *)
(*      inputs x all hint pairs and checks soundness / completeness.          *)
(*  (3) The lazy variable of r1cs/lazy.rs as a state machine (LazyNew,        *)
(*      ForceEncoding, ForceElement) and the circuit-shape registry.          *)
EXTENDS DecafImpl

\* ---- (2) constraint blocks as coded -----------------------------------------
\* FqVarExtension::isqrt on `den` with prover-supplied (flag, y)
SatIsqrt(den, flag, y) ==
  LET dz == den = NZero
      denv == IF dz THEN NOne ELSE den                 \* conditionally_select(den_is_zero, one, den)
      dinv == FInv(denv)
      y2 == FSq(y)
  IN /\ flag => y2 = dinv                               \* case 1
     /\ (~flag /\ dz) => y2 = NZero                     \* case 3
     /\ (~flag /\ ~dz) => y2 = FMul(Zeta, dinv)         \* case 4
     /\ (flag \/ (~flag /\ dz) \/ (~flag /\ ~dz))       \* "in case 1, 3 or 4"
\* decompress_from_field: constraints and forced output
DecodeDen(s) == LET ss == FSq(s) u1 == FSub(NOne, ss) u2 == FSub(FSq(u1), FMul(FMul(FOfNat(4), D), ss)) IN FMul(u2, FSq(u1))
SatDecode(s, flag, y) == ~IsNeg(s) /\ SatIsqrt(DecodeDen(s), flag, y) /\ flag = TRUE
OutDecode(s, y) ==
  LET ss == FSq(s) u1 == FSub(NOne, ss) u2 == FSub(FSq(u1), FMul(FMul(FOfNat(4), D), ss))
      tsu == FMul(FMul(FTwo, s), u1)
      v == IF IsNeg(FMul(tsu, y)) THEN FNeg(y) ELSE y
  IN << FMul(FMul(tsu, FSq(v)), u2), FMul(FMul(FAdd(NOne, ss), v), u1) >>
\* compress_to_field on affine (x, y)
CompressDen(Pt) == LET T == FMul(Pt[1], Pt[2]) u1 == FMul(FAdd(Pt[1], T), FSub(Pt[1], T)) IN FMul(FMul(u1, FSub(A, D)), FSq(Pt[1]))
SatCompress(Pt, flag, y) == SatIsqrt(CompressDen(Pt), flag, y)
OutCompress(Pt, y) ==
  LET T == FMul(Pt[1], Pt[2]) u1 == FMul(FAdd(Pt[1], T), FSub(Pt[1], T))
      u2 == FAbs(FMul(y, u1)) u3 == FSub(u2, T)
  IN FAbs(FMul(FMul(FMul(FSub(A, D), y), u3), Pt[1]))
\* elligator_map: isqrt of num*den, then two in-circuit inversions (unsatisfiable on zero)
EllParts(r0, flag, y) ==
  LET r == FMul(Zeta, FSq(r0))
      den == FMul(FSub(FMul(D, r), FSub(D, A)), FSub(FMul(FSub(D, A), r), D))
      am2d == FSub(A, FMul(FTwo, D))
      num == FMul(FAdd(r, NOne), am2d)
      sgn == IF flag THEN NOne ELSE FNeg(NOne)
      isri == IF flag THEN y ELSE FMul(y, r0)
      s0 == FMul(isri, num)
      t == FSub(FMul(FMul(FMul(FMul(FNeg(sgn), isri), s0), FSub(r, NOne)), FSq(am2d)), NOne)
      s == IF IsNeg(s0) = flag THEN FNeg(s0) ELSE s0
  IN [x |-> FMul(num, den), s |-> s, t |-> t, xden |-> FAdd(NOne, FMul(A, FSq(s)))]
SatElligator(r0, flag, y) == LET e == EllParts(r0, flag, y) IN
  SatIsqrt(e.x, flag, y) /\ e.xden # NZero /\ e.t # NZero
OutElligator(r0, flag, y) == LET e == EllParts(r0, flag, y) IN
  << FDiv(FMul(FTwo, e.s), e.xden), FDiv(FSub(NOne, FMul(A, FSq(e.s))), e.t) >>

\* ---- (1) what the gadgets must compute ----------------------------------------
IsqrtSound(den, flag, y) == SqrtRatioOK(NOne, den, flag, y)
DecodeSound(s, out) == DecodeSpec(s) # NoPoint /\ SameElement(DecodeSpec(s), out)
\* the one hole of the isqrt block as coded (known finding C14): den = 0 accepted with flag = TRUE, y^2 = 1
IsqrtHole(den, flag, y) == den = NZero /\ flag = TRUE /\ FSq(y) = NOne

\* ---- (3) the lazily evaluated variable ------------------------------------------
\* state: which of (encoding, element) exist; the pair of values never changes once set;
\* constraints are emitted only on the single transition into "Both"
LazyStates == {"Encoding", "Element", "Both"}
LazyAfterForceElement(st) == IF st = "Encoding" THEN "Both" ELSE st
LazyAfterForceEncoding(st) == IF st = "Element" THEN "Both" ELSE st
=============================================================================
