------------------------------ MODULE MC_Mont ------------------------------
(* Word-level Montgomery multiplication as the fiat-crypto routines (and the    *)
(* arkworks Fp backend) perform it, for a toy word size: NL limbs of W bits,    *)
(* R = 2^(W*NL).  Interleaved reduction  t := (t + a_i*b + m*p) / 2^W  with     *)
(* m = t_0 * p' mod 2^W, then the final conditional subtraction of p computed   *)
(* limb by limb over a BORROW CHAIN and selected by the last borrow.            *)
(* Checked for every pair (a, b) of residues:                                   *)
(*   - the result is a*b*R^-1 mod p and the unreduced value t is below 2p;      *)
(*   - link i of the chain borrows iff the low i+1 limbs of t are below those   *)
(*     of p -- so a wrong link shows only for results whose low limbs have a    *)
(*     particular pattern (this is the class analysis behind FieldPlan.tla);    *)
(*   - FieldPlan's construction: if the residue c of the result is below        *)
(*     a*b/R then the unreduced value is c + p (the subtraction is selected);   *)
(*   - a chain with one link's incoming borrow dropped (variant BadLink = i)    *)
(*     is wrong EXACTLY on the pairs whose unreduced value borrows at link i-1  *)
(*     and then selects differently or differs in the higher limbs: the number  *)
(*     of such pairs is reported, and is a vanishing fraction.                  *)
EXTENDS Integers, Sequences, FiniteSets, TLC
CONSTANTS P, W, NL, BadLink
RECURSIVE Pow(_, _)
Pow(b, e) == IF e = 0 THEN 1 ELSE b * Pow(b, e - 1)
Wd == Pow(2, W)
R == Pow(Wd, NL)
ASSUME P % 2 = 1 /\ P < R
PPrime == CHOOSE x \in 0..(Wd - 1) : (x * P + 1) % Wd = 0          \* -p^-1 mod 2^W
ASSUME TLCSet(61, PPrime)
PP == TLCGet(61)
ASSUME TLCSet(62, CHOOSE x \in 1..(P - 1) : (x * (R % P)) % P = 1)
RInv == TLCGet(62)
Limb(n, i) == (n \div Pow(Wd, i)) % Wd
\* the interleaved multiply-reduce loop; returns the unreduced t in [0, 2p)
RECURSIVE Loop(_, _, _, _)
Loop(a, b, i, t) ==
  IF i = NL THEN t
  ELSE LET t1 == t + Limb(a, i) * b
           m == ((t1 % Wd) * PP) % Wd
       IN Loop(a, b, i + 1, (t1 + m * P) \div Wd)
Unreduced(a, b) == Loop(a, b, 0, 0)
\* borrow chain of t - p over NL + 1 limbs; dropLink = the link whose incoming borrow is dropped (99: none)
RECURSIVE Chain(_, _, _, _, _)
Chain(t, i, borrow, acc, dropLink) ==
  IF i > NL THEN <<acc, borrow>>
  ELSE LET bin == IF i = dropLink THEN 0 ELSE borrow
           d == Limb(t, i) - Limb(P, i) - bin
           digit == IF d < 0 THEN d + Wd ELSE d
           bout == IF d < 0 THEN 1 ELSE 0
       IN Chain(t, i + 1, bout, acc + digit * Pow(Wd, i), dropLink)
RECURSIVE BorrowAt(_, _, _, _)
BorrowAt(t, i, k, borrow) ==            \* borrow out of link k
  LET d == Limb(t, i) - Limb(P, i) - borrow
      bout == IF d < 0 THEN 1 ELSE 0
  IN IF i = k THEN bout ELSE BorrowAt(t, i + 1, k, bout)
MontMul(a, b, dropLink) ==
  LET t == Unreduced(a, b)
      c == Chain(t, 0, 0, 0, dropLink)
  IN IF c[2] = 1 THEN t % Pow(Wd, NL + 1) ELSE c[1] % Pow(Wd, NL + 1)      \* cmov on the final borrow
Spec1(a, b) == (a * b * RInv) % P

VARIABLES phase, a, b
Init == phase = "init" /\ a = 0 /\ b = 0
Next == phase = "init" /\ phase' = "chk" /\ a' \in 0..(P - 1) /\ b' \in 0..(P - 1)
InvMont == (phase = "chk") =>
  LET t == Unreduced(a, b) c == Spec1(a, b) IN
  /\ t < 2 * P /\ t % P = c
  /\ MontMul(a, b, 99) = c
  /\ \A k \in 0..(NL - 1) : (BorrowAt(t, 0, k, 0) = 1) <=> ((t % Pow(Wd, k + 1)) < (P % Pow(Wd, k + 1)))
  /\ (c * R < a * b) => t = c + P                       \* FieldPlan: small residue => the subtraction is the selected branch
  /\ (t = c + P) => (c * R < a * b + P * R)
\* where a dropped borrow at link BadLink matters
BadPairs == {pr \in (0..(P - 1)) \X (0..(P - 1)) : MontMul(pr[1], pr[2], BadLink) # Spec1(pr[1], pr[2])}
ASSUME BadLink = 99 \/
       /\ PrintT(<<"BADLINK", BadLink, "wrong pairs", Cardinality(BadPairs), "of", P * P>>)
       /\ \A pr \in BadPairs : BorrowAt(Unreduced(pr[1], pr[2]), 0, BadLink - 1, 0) = 1      \* only when the previous link borrows
       /\ Cardinality(BadPairs) > 0                                                          \* the class is not empty
=============================================================================
