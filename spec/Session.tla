------------------------------ MODULE Session ------------------------------
(* The API state machine of the group part of the crate.                     *)
(*                                                                           *)
(* State: what a client session holds -- a register file of elements.  A     *)
(* register holds the CONCRETE representative (an affine curve point) of the *)
(* element, because that is what the implementation holds and because the    *)
(* properties quantify over representatives; the abstract value is its coset *)
(* {Q, Q + T2}.  One action per public call form; the linearisation point of *)
(* a sequential library call is its return.  Every action computes the       *)
(* observable result (obs') from L0/L1 alone and leaves the representative   *)
(* of a produced element free inside its coset -- the implementation may     *)
(* return either member, in any projective scaling.                          *)
(*                                                                           *)
(* `form` arguments name the operator impl / entry point used (owned,        *)
(* borrowed, assign, mixed affine ...).  They do not influence the result:   *)
(* that all forms agree is exactly what C02/C04/C05 state.                   *)
EXTENDS Decaf
CONSTANTS Regs,          \* register names
          GroupOrder,    \* r, a number of the sort
          Forms          \* set of admissible form names (coverage accounting only)

VARIABLES reg,           \* [Regs -> curve point]
          hseen,         \* set of <<type, encoding, hash>> observed so far
          obs            \* the observable result of the last call
svars == <<reg, hseen, obs>>

SInit == /\ reg = [i \in Regs |-> EId]
         /\ hseen = {}
         /\ obs = [k |-> "init"]

\* a produced element: any member of the coset of `result`
Put(dst, result) == \E rep \in Reps(result) : reg' = [reg EXCEPT ![dst] = rep]
GeneratorPt == DecodeSpec(FOfNat(8))

\* ---- constructors ---------------------------------------------------------
Const(name, dst) ==
  /\ name \in {"IDENTITY", "GENERATOR", "default", "zero", "generator", "affine_zero", "affine_generator", "affine_default", "AFFINE_IDENTITY"}
  /\ Put(dst, IF name \in {"GENERATOR", "generator", "affine_generator"} THEN GeneratorPt ELSE EId)
  /\ obs' = [k |-> "const"] /\ UNCHANGED hseen
\* every decoding entry point: same verdict, same element, error class by length first
Decode(entry, b, dst) ==
  LET r == DecodeBytes(b) IN
  /\ IF r.ok THEN Put(dst, r.pt) ELSE reg' = reg
  /\ obs' = [k |-> "dec", ok |-> r.ok, err |-> r.err]
  /\ UNCHANGED hseen
Elligator(r0, dst) == Put(dst, ElligatorSpec(r0)) /\ obs' = [k |-> "ell"] /\ UNCHANGED hseen
HashToCurve(r1, r2, dst) == Put(dst, HashToCurveSpec(r1, r2)) /\ obs' = [k |-> "h2c"] /\ UNCHANGED hseen
\* constructors with no functional specification (samplers, from_random_bytes, batch
\* conversions): whatever they hand out must be a valid representative.  `rep` is the point handed out.
Construct(name, dst, rep) ==
  /\ OnCurve(rep) /\ Valid(rep)
  /\ reg' = [reg EXCEPT ![dst] = rep]
  /\ obs' = [k |-> "ctor"] /\ UNCHANGED hseen
\* conversions that must preserve the element (into_affine, From, normalize_batch, clone, rescaling)
Convert(name, a, dst) == Put(dst, reg[a]) /\ obs' = [k |-> "conv"] /\ UNCHANGED hseen
\* the other representative of the same element (test-only hook: adds the 2-torsion point)
TorqueOp(a, dst) == reg' = [reg EXCEPT ![dst] = Torque(reg[a])] /\ obs' = [k |-> "torque"] /\ UNCHANGED hseen

\* ---- group operations -----------------------------------------------------
Bin(op, form, a, b, dst) ==
  /\ op \in {"add", "sub"} /\ form \in Forms
  /\ Put(dst, IF op = "add" THEN EAdd(reg[a], reg[b]) ELSE ESub(reg[a], reg[b]))
  /\ obs' = [k |-> "bin"] /\ UNCHANGED hseen
Neg(form, a, dst) == form \in Forms /\ Put(dst, ENeg(reg[a])) /\ obs' = [k |-> "neg"] /\ UNCHANGED hseen
Dbl(form, a, dst) == form \in Forms /\ Put(dst, EDbl(reg[a])) /\ obs' = [k |-> "dbl"] /\ UNCHANGED hseen
Sum(form, srcs, dst) ==
  /\ form \in Forms
  /\ Put(dst, ESum([i \in 1..Len(srcs) |-> reg[srcs[i]]]))
  /\ obs' = [k |-> "sum"] /\ UNCHANGED hseen
\* k is an integer of ANY length (scalar-field elements are given by their canonical value)
Mul(form, k, a, dst) == form \in Forms /\ Put(dst, SMul(k, reg[a])) /\ obs' = [k |-> "mul"] /\ UNCHANGED hseen
Msm(form, ks, srcs, dst) ==
  /\ form \in Forms /\ Len(ks) = Len(srcs)
  /\ Put(dst, ESum([i \in 1..Len(srcs) |-> SMul(ks[i], reg[srcs[i]])]))
  /\ obs' = [k |-> "msm"] /\ UNCHANGED hseen

\* ---- observations ---------------------------------------------------------
Encode(form, a) == form \in Forms /\ obs' = [k |-> "enc", out |-> EncodeBytes(reg[a])] /\ UNCHANGED <<reg, hseen>>
EncodeField(form, a) == form \in Forms /\ obs' = [k |-> "encf", out |-> EncodeSpec(reg[a])] /\ UNCHANGED <<reg, hseen>>
ObsEq(form, a, b) == form \in Forms /\ obs' = [k |-> "eq", out |-> (EncodeSpec(reg[a]) = EncodeSpec(reg[b]))] /\ UNCHANGED <<reg, hseen>>
ObsIsIdentity(pred, a) == pred \in Forms /\ obs' = [k |-> "isid", out |-> (EncodeSpec(reg[a]) = NZero)] /\ UNCHANGED <<reg, hseen>>
\* observations made DIRECTLY on the affine point an affine-typed operator returned (no conversion in between):
\* identity predicates / equality with the identity constants / hash coherence, and the compressed serialisation
AffineOps == {"add", "sub", "conv", "neg", "zero"}
AffineResult(op, a, b) == CASE op = "add" -> EAdd(reg[a], reg[b]) [] op = "sub" -> ESub(reg[a], reg[b])
                            [] op = "conv" -> reg[a] [] op = "neg" -> ENeg(reg[a]) [] OTHER -> EId
ObsAffineId(op, form, pred, a, b) ==
  LET res == AffineResult(op, a, b) IN
  /\ op \in AffineOps /\ form \in Forms /\ pred \in Forms
  /\ obs' = [k |-> "aobs", out |-> (EncodeSpec(res) = NZero)] /\ UNCHANGED <<reg, hseen>>
ObsAffineEnc(op, form, a, b) ==
  LET res == AffineResult(op, a, b) IN
  /\ op \in AffineOps /\ form \in Forms
  /\ obs' = [k |-> "aenc", out |-> EncodeBytes(res)] /\ UNCHANGED <<reg, hseen>>
\* hashing: no fixed digest is specified, only coherence with equality
ObsHash(ty, a, h) ==
  LET e == EncodeSpec(reg[a]) IN
  /\ \A t \in hseen : (t[1] = ty /\ t[2] = e) => t[3] = h
  /\ hseen' = hseen \cup {<<ty, e, h>>}
  /\ obs' = [k |-> "hash"] /\ UNCHANGED reg

\* ---- the square-root-of-ratio routine (C09): any result meeting the four-case contract ----
SqrtRatioCall(impl, num, den, flag, y) ==
  /\ impl \in Forms /\ flag \in BOOLEAN
  /\ NLess(num, P) /\ NLess(den, P) /\ NLess(y, P)
  /\ SqrtRatioOK(num, den, flag, y)
  /\ obs' = [k |-> "sqrt"] /\ UNCHANGED <<reg, hseen>>

\* ---- composite calls (C01): encode-then-decode and decode-then-encode as one step ----
\* compress a register, decompress the bytes into dst, compare with the original
RoundTrip(encform, entry, a, dst) ==
  /\ encform \in Forms /\ entry \in Forms
  /\ Put(dst, reg[a])
  /\ obs' = [k |-> "rt", bytes |-> EncodeBytes(reg[a]), ok |-> TRUE, eq |-> TRUE]
  /\ UNCHANGED hseen
\* decompress arbitrary bytes into dst; when accepted, compress again
ReEncode(entry, encform, b, dst) ==
  LET r == DecodeBytes(b) IN
  /\ encform \in Forms /\ entry \in Forms
  /\ IF r.ok THEN Put(dst, r.pt) ELSE reg' = reg
  /\ obs' = [k |-> "rt2", ok |-> r.ok, bytes |-> IF r.ok THEN b ELSE <<>>]
  /\ UNCHANGED hseen

\* ---- invariants of the specification (checked on the toy instantiation and in
\*      every state of every validated trace) -------------------------------------
InvValid     == \A i \in Regs : OnCurve(reg[i]) /\ Valid(reg[i])
InvRoundTrip == \A i \in Regs : LET d == DecodeSpec(EncodeSpec(reg[i])) IN d # NoPoint /\ SameElement(d, reg[i])
InvOrder     == \A i \in Regs : SameElement(SMul(GroupOrder, reg[i]), EId)
InvEqIsCoset == \A i \in Regs : \A j \in Regs :
                  /\ (EncodeSpec(reg[i]) = EncodeSpec(reg[j])) <=> SameElement(reg[i], reg[j])
                  /\ DecafEq(reg[i], reg[j]) <=> SameElement(reg[i], reg[j])
InvHash      == \A t1 \in hseen : \A t2 \in hseen : (t1[1] = t2[1] /\ t1[2] = t2[2]) => t1[3] = t2[3]
=============================================================================
