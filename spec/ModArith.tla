------------------------------ MODULE ModArith ------------------------------
(* Arithmetic modulo an explicit modulus over an abstract number sort.      *)
(* Everything above this module is written once and instantiated twice:     *)
(*   toy : numbers are TLC integers        (IntOps,  exhaustive checking)    *)
(*   real: numbers are byte sequences      (BN,      oracle for the code)    *)
(* The binding is done in the .cfg of each run (NAdd <- IntAdd / BNAdd ...). *)
EXTENDS Integers, Sequences, TLC
CONSTANTS NAdd(_, _), NSub(_, _), NMul(_, _), NMod(_, _), NDiv(_, _), NLess(_, _),
          NShr1(_), NBits(_), NIsOdd(_), NPowMod(_, _, _), NPow2(_),
          NFromNat(_),            \* a small TLC natural as a number of the sort
          NFromBytes(_),          \* little-endian byte string -> number
          NToBytes(_, _)          \* number, length -> little-endian byte string

MRed(m, a)    == NMod(a, m)
MZero(m)      == NMod(NFromNat(0), m)
MOne(m)       == NMod(NFromNat(1), m)
MAdd(m, a, b) == NMod(NAdd(a, b), m)
MMul(m, a, b) == NMod(NMul(a, b), m)
MNeg(m, a)    == NMod(NSub(m, NMod(a, m)), m)
MSub(m, a, b) == MAdd(m, a, MNeg(m, b))
MSq(m, a)     == MMul(m, a, a)
MPow(m, x, e) == NPowMod(x, e, m)                       \* e is a number of the sort
MInv(m, x)    == NPowMod(x, NSub(m, NFromNat(2)), m)    \* Fermat; MInv(m, 0) = 0
MDiv(m, a, b) == MMul(m, a, MInv(m, b))
MIsSquare(m, x) == NMod(x, m) = MZero(m) \/ NPowMod(x, NShr1(NSub(m, NFromNat(1))), m) = MOne(m)
MLegendre(m, x) == IF NMod(x, m) = MZero(m) THEN 0 ELSE IF MIsSquare(m, x) THEN 1 ELSE -1
IsCanon(m, a) == NLess(a, m)
NEq(a, b) == ~NLess(a, b) /\ ~NLess(b, a)                 \* numeric equality (representations may differ in length)
=============================================================================
