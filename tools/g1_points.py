#!/usr/bin/env python3
"""BLS12-377 G1 curve points (y^2 = x^3 + 1 over Fp) whose y coordinate sits on the boundary the point
serialisation depends on: compressed serialisation stores x and ONE bit saying which of y, -y is meant, decided by
comparing y with -y, i.e. y with (p-1)/2.  y is chosen at distance t from (p-1)/2, 0 and p-1 for structured and
random t (so that y and -y share their most significant limbs), and x is a cube root of y^2 - 1 (root finding over
Fp).  The points need not be in the prime-order subgroup: they are moved with the unchecked (de)serialisers.
usage: g1_points.py <out.ndjson> <n_random> <seed>      one {"x":[48 bytes],"y":[48 bytes]} per line"""
import json, random, sys, os
sys.path.insert(0, os.path.dirname(os.path.abspath(__file__)))
import isqrt_inputs as P
PMOD = 258664426012969094010652733694893533536393512754914660539884262666720468348340822774968888139573360124440321458177
def le48(n): return [(n >> (8 * i)) & 255 for i in range(48)]
def solve(args):
    y, seed = args
    P.Q = PMOD
    rng = random.Random(seed)
    c = (y * y - 1) % PMOD
    rs = P.roots([(-c) % PMOD, 0, 0, 1], rng)
    return (rs[0], y) if rs else None
B1 = 155198655607781456406391640216936120121836107652948796323930557600032281009004493664981332883744016074664192874906
def g2_special(args):
    """a G2 x-coordinate x = x0 + x1 u (u^2 = -5) whose curve-equation right-hand side x^3 + b' (b' = B1 u) lies in the
    base field Fp: the imaginary part 3 x0^2 x1 - 5 x1^3 + B1 must vanish, so x0 = sqrt((5 x1^3 - B1)/(3 x1)).  The square
    root in Fp2 then takes its special branch (imaginary part zero; residue / non-residue of Fp decided by Euler)."""
    x1, seed = args
    P.Q = PMOD
    rng = random.Random(seed)
    t = (5 * pow(x1, 3, PMOD) - B1) * pow(3 * x1, -1, PMOD) % PMOD
    rs = P.roots([(-t) % PMOD, 0, 1], rng)
    if not rs:
        return None
    x0 = rs[0]
    c = (pow(x0, 3, PMOD) - 15 * x0 * x1 * x1) % PMOD
    if (3 * x0 * x0 * x1 - 5 * pow(x1, 3, PMOD) + B1) % PMOD != 0 or c == 0:
        return None
    return (x0, x1, pow(c, (PMOD - 1) // 2, PMOD) == 1)
def main():
    import multiprocessing
    out, nrand, seed = sys.argv[1], int(sys.argv[2]), int(sys.argv[3])
    rng = random.Random(seed)
    half = (PMOD - 1) // 2
    ts = list(range(0, 6)) + [1 << k for k in (8, 16, 31, 32, 33, 63, 64, 65, 127, 128, 191, 192, 255, 256, 319, 320, 321, 350, 370)]
    ts += [(1 << k) - 1 for k in (32, 64, 128, 192, 256, 320)]
    ts += [rng.getrandbits(rng.choice([16, 60, 64, 120, 200, 300, 318, 322, 370])) for _ in range(nrand)]
    ys = []
    for t in ts:
        for base, sgn in ((half, -1), (half + 1, 1), (0, 1), (PMOD - 1, -1)):
            y = (base + sgn * t) % PMOD
            ys.append(y)
    jobs = [(y, seed * 7 + i) for i, y in enumerate(dict.fromkeys(ys))]
    with multiprocessing.Pool(min(16, multiprocessing.cpu_count())) as pool:
        res = pool.map(solve, jobs, chunksize=4)
    g2jobs = [(rng.randrange(1, PMOD), seed * 11 + i) for i in range(24 + nrand // 4)]
    with multiprocessing.Pool(min(16, multiprocessing.cpu_count())) as pool:
        g2 = [r for r in pool.map(g2_special, g2jobs, chunksize=2) if r]
    n = 0
    with open(out, "w") as f:
        for r in res:
            if r:
                f.write(json.dumps({"x": le48(r[0]), "y": le48(r[1])}) + "\n"); n += 1
        for (x0, x1, qr) in g2:
            for flag in (0x00, 0x80):
                b = le48(x0) + le48(x1)
                b[95] |= flag
                f.write(json.dumps({"deser": "G2", "b": b, "rhs_is_residue": qr}) + "\n")
    print(json.dumps({"candidates": len(jobs), "points": n, "g2_rhs_in_Fp": len(g2), "g2_rhs_nonresidue": sum(1 for r in g2 if not r[2])}))
if __name__ == "__main__":
    main()
