#!/usr/bin/env python3
"""Generate spec/BNRef.tla from spec/BN.tla by renaming every identifier that starts
with BN to RF (module name included).  BNRef has no class file, so TLC interprets
the TLA+ bodies; BNSelfTest compares them with the Java evaluator of BN."""
import re, sys, os, random
here = os.path.dirname(os.path.abspath(__file__))
spec = os.path.join(here, "..", "spec")
src = open(os.path.join(spec, "BN.tla")).read()
out = re.sub(r"\bBN(\w*)", lambda m: "RF" + m.group(1) if m.group(1) else "BNRef", src)
out = out.replace("MODULE BNRef", "MODULE BNRef")
open(os.path.join(spec, "BNRef.tla"), "w").write(out)

def le(n, ln):
    return "<<" + ",".join(str((n >> (8 * i)) & 255) for i in range(ln)) + ">>"

seed = int(os.environ.get("VERIF_SEED", "1"))
rng = random.Random(seed)
q = 8444461749428370424248824938781546531375899335154063827935233455917409239041
r = 2111115437357092606062206234695386632838870926408408195193685246394721360383
p = 258664426012969094010652733694893533536393512754914660539884262666720468348340822774968888139573360124440321458177
ops = []
edge = [(0, 1), (1, 1), (255, 1), (256, 2), (2**64 - 1, 8), (2**64, 9), (q - 1, 32), (q, 32), (q + 1, 32),
        (2**256 - 1, 32), (2**253, 32), (r, 32), (p - 1, 48), (p, 48), (2**384 - 1, 48), (0, 32), (1, 32), (0, 0)]
rand = [(rng.getrandbits(rng.choice([8, 64, 200, 253, 256, 377, 384, 512])), 0) for _ in range(10)]
vals = []
for (n, ln) in edge + rand:
    ln = max(ln, (n.bit_length() + 7) // 8)
    vals.append(le(n, ln))
pairs = []
for i in range(len(vals)):
    for j in rng.sample(range(len(vals)), 4):
        pairs.append("<<%s,%s>>" % (vals[i], vals[j]))
mods = [le(q, 32), le(r, 32), le(p, 48), le(97, 1), le(2**255 - 19, 32), le(65537, 4)]
smallexp = [le(e, max(1, (e.bit_length() + 7) // 8)) for e in [0, 1, 2, 3, 5, 6, rng.getrandbits(4)]]
smallvals = [le(v, max(1, (v.bit_length() + 7) // 8)) for v in [0, 1, 2, 96, 97, 255, 256, 65536, rng.getrandbits(16), rng.getrandbits(24)]]
smallmods = [le(m, max(1, (m.bit_length() + 7) // 8)) for m in [1, 2, 97, 257, 65537]]
bigexp = [le(rng.getrandbits(253), 32), le(q - 2, 32), le((q - 1) // 2, 32), le(p - 2, 48)]
open(os.path.join(spec, "BNSelfTestData.tla"), "w").write(
    "---- MODULE BNSelfTestData ----\n"
    "Vals == <<%s>>\nPairs == <<%s>>\nMods == <<%s>>\nSmallExp == <<%s>>\nBigExp == <<%s>>\nSmallVals == <<%s>>\nSmallMods == <<%s>>\n====\n"
    % (",".join(vals), ",".join(pairs), ",".join(mods), ",".join(smallexp), ",".join(bigexp), ",".join(smallvals), ",".join(smallmods)))
