#!/bin/sh
# usage: tlc.sh <workers> <metadir> <cfg> <module.tla> [extra TLC args]
W=$1; M=$2; C=$3; T=$4; shift 4
exec java -Xss1g -XX:+UseParallelGC ${TLC_XMX:--Xmx4g} ${TLC_JAVA_OPTS} -cp /opt/veriftools/tla/tla2tools.jar:/opt/veriftools/tla/CommunityModules-deps.jar tlc2.TLC -workers $W -metadir $M -cleanup -noGenerateSpecTE -config $C $T "$@"
