#!/usr/bin/env python3
"""Inputs for the Elligator map and the decoder chosen BY THE 2-PRIMARY COMPONENT OF THE VALUE THEIR INNER
SQUARE-ROOT-OF-RATIO CALL SEES.  SqrtPlan.tla (TLC) produces ratios rho whose discrete logarithm in the 2-Sylow
subgroup has a prescribed digit pattern; both callers compute sqrt_ratio_zeta(1, X) with
   Elligator:  X(r)  = (r+1)(a-2d) * (d r - (d-a)) * ((d-a) r - d),   r = zeta * r0^2      (a cubic in r)
   decoding :  Y(S)  = ((1-S)^2 - 4 d S) * (1-S)^2,                   S = s^2             (a quartic in S)
so an input reaching the ratio rho is a root of X(r) = 1/rho (resp. Y(S) = 1/rho) with r/zeta (resp. S) a square.
This script only SOLVES those polynomial equations over Fq (gcd with X^q - X, equal-degree splitting); multiplying
rho by an element of the odd-order subgroup keeps the 2-primary component, so several are tried until a root
exists.  It decides nothing: the outputs of the real code on these inputs are validated by TLC.
usage: isqrt_inputs.py <sqrtplan.ndjson> <out_ell.ndjson> <out_dec.ndjson> <stride> <seed>"""
import json, random, sys

Q = 8444461749428370424248824938781546531375899335154063827935233455917409239041
A = Q - 1
D = 3021
ZETA = 2841681278031794617739547238867782961338435681360110683443920362658525667816

def trim(f):
    while f and f[-1] == 0:
        f.pop()
    return f
def padd(f, g):
    n = max(len(f), len(g)); return trim([((f[i] if i < len(f) else 0) + (g[i] if i < len(g) else 0)) % Q for i in range(n)])
def psub(f, g):
    n = max(len(f), len(g)); return trim([((f[i] if i < len(f) else 0) - (g[i] if i < len(g) else 0)) % Q for i in range(n)])
def pmul(f, g):
    if not f or not g: return []
    out = [0] * (len(f) + len(g) - 1)
    for i, a in enumerate(f):
        if a:
            for j, b in enumerate(g):
                out[i + j] = (out[i + j] + a * b) % Q
    return trim(out)
def pmod(f, m):
    f = f[:]; dm = len(m) - 1; inv = pow(m[-1], Q - 2, Q)
    while len(f) - 1 >= dm and f:
        c = f[-1] * inv % Q; sh = len(f) - 1 - dm
        for i, b in enumerate(m):
            f[sh + i] = (f[sh + i] - c * b) % Q
        trim(f)
    return f
def pgcd(f, g):
    while g:
        f, g = g, pmod(f, g)
    if f:
        inv = pow(f[-1], Q - 2, Q); f = [c * inv % Q for c in f]
    return f
def ppowmod(base, e, m):
    res = [1]; base = pmod(base, m)
    while e:
        if e & 1: res = pmod(pmul(res, base), m)
        base = pmod(pmul(base, base), m); e >>= 1
    return res
def roots(f, rng):
    """all roots in Fq of the polynomial f (list, low degree first)"""
    f = trim(f[:])
    if len(f) <= 1: return []
    xq = ppowmod([0, 1], Q, f)
    g = pgcd(f, psub(xq, [0, 1]))
    out = []
    def split(h):
        if len(h) <= 1: return
        if len(h) == 2:
            out.append((-h[0]) * pow(h[1], Q - 2, Q) % Q); return
        while True:
            d = rng.randrange(Q)
            t = psub(ppowmod([d, 1], (Q - 1) // 2, h), [1])
            w = pgcd(h, t)
            if 1 < len(w) < len(h):
                split(w); split(pmod_div(h, w)); return
    def pmod_div(h, w):
        # exact division h / w
        h = h[:]; qn = [0] * (len(h) - len(w) + 1); inv = pow(w[-1], Q - 2, Q)
        while len(h) >= len(w) and h:
            c = h[-1] * inv % Q; sh = len(h) - len(w); qn[sh] = c
            for i, b in enumerate(w):
                h[sh + i] = (h[sh + i] - c * b) % Q
            trim(h)
        return trim(qn)
    split(g)
    return out
def sqrt_mod(x):
    """a square root of x mod Q or None (Tonelli-Shanks)"""
    x %= Q
    if x == 0: return 0
    if pow(x, (Q - 1) // 2, Q) != 1: return None
    s, t = 0, Q - 1
    while t % 2 == 0: s += 1; t //= 2
    z = ZETA; c = pow(z, t, Q); r = pow(x, (t + 1) // 2, Q); tt = pow(x, t, Q); m = s
    while tt != 1:
        i, t2 = 0, tt
        while t2 != 1: t2 = t2 * t2 % Q; i += 1
        b = pow(c, 1 << (m - i - 1), Q); r = r * b % Q; c = b * b % Q; tt = tt * c % Q; m = i
    return r
def le(n): return [(n >> (8 * i)) & 255 for i in range(32)]
def val(b): return sum(x << (8 * i) for i, x in enumerate(b))

# X(r) = (r+1)(a-2d)(d r - (d-a))((d-a) r - d)
am2d = (A - 2 * D) % Q; dma = (D - A) % Q
XPOLY = pmul(pmul([am2d, am2d], [(-dma) % Q, D]), [(-D) % Q, dma])
# Y(S) = ((1-S)^2 - 4dS)(1-S)^2
oneS = [1, Q - 1]
YPOLY = pmul(psub(pmul(oneS, oneS), [0, 4 * D % Q]), pmul(oneS, oneS))

def solve(args):
    kind, rho, seed = args
    rng = random.Random(seed)
    ell = dec = None
    for attempt in range(6):
        u = 1 if attempt == 0 else pow(rng.randrange(2, Q), 1 << 47, Q)     # odd-order factor keeps the 2-primary part
        target = pow(rho * u % Q, Q - 2, Q)                                   # X = 1 / ratio
        if ell is None:
            for r in roots(psub(XPOLY, [target]), rng):
                r0 = sqrt_mod(r * pow(ZETA, Q - 2, Q) % Q)
                if r0 is not None:
                    ell = le(r0); break
        if dec is None:
            for S in roots(psub(YPOLY, [target]), rng):
                s = sqrt_mod(S)
                if s is not None:
                    if s % 2 == 1: s = Q - s
                    dec = {"b": le(s), "entries": "one", "kind": "isqrt_" + kind}; break
        if ell is not None and dec is not None:
            break
    return ell, dec

def main():
    import multiprocessing
    plan, out_ell, out_dec, stride, seed = sys.argv[1], sys.argv[2], sys.argv[3], int(sys.argv[4]), int(sys.argv[5])
    always = {"dlogspecial", "zeta", "root", "bit", "ones", "one"}
    jobs = []
    for i, line in enumerate(open(plan)):
        e = json.loads(line)
        if val(e["den"]) != 1:            # one presentation per case: (x, 1)
            continue
        if e["kind"] not in always and (i // 3) % stride != 0:
            continue
        rho = val(e["num"])
        if rho:
            jobs.append((e["kind"], rho, seed * 1000003 + i))
    with multiprocessing.Pool(min(16, multiprocessing.cpu_count())) as pool:
        res = pool.map(solve, jobs, chunksize=8)
    nell = ndec = 0
    with open(out_ell, "w") as fe, open(out_dec, "w") as fd:
        for ell, dec in res:
            if ell is not None:
                fe.write(json.dumps(ell) + "\n"); nell += 1
            if dec is not None:
                fd.write(json.dumps(dec) + "\n"); ndec += 1
    print(json.dumps({"targets": len(jobs), "elligator_inputs": nell, "decode_inputs": ndec}))
if __name__ == "__main__":
    main()
