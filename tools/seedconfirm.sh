#!/bin/bash
# usage: seedconfirm.sh <ID> <democmd...>   (worktree /tmp/wt_<ID>, outputs /tmp/seed_out/<ID>)
# confirms: patch applies to a clean tree, existing suite passes with it, demo fails with / passes without
ID=$1; shift
WT=/tmp/wt_$ID; OUT=/tmp/seed_out/$ID
cd $WT || exit 2
git checkout -q -- src 2>/dev/null
cp $OUT/demo.rs tests/seed_demo.rs 2>/dev/null
git apply --check $OUT/patch.diff || { echo "PATCH DOES NOT APPLY"; exit 1; }
echo "== demo without patch"; "$@" 2>&1 | grep -E "^test result|error(\[|:)" | head -5
git apply $OUT/patch.diff
echo "== demo with patch"; "$@" 2>&1 | grep -E "^test result|error(\[|:)" | head -5
echo "== existing suite with patch"; cargo test --workspace --no-fail-fast --offline 2>&1 | grep -E "^test result" | head -5
echo "== builds"; cargo build --offline 2>&1 | tail -1; cargo build --offline --no-default-features 2>&1 | tail -1
