#!/usr/bin/env python3
"""Write MANIFEST.json from the table below (one source of truth for the registered checks)."""
import json, os
VERIF = os.path.dirname(os.path.dirname(os.path.abspath(__file__)))
TRUST = ("Trusted: TLC 1.8.0; the Java evaluator of the BN number sort (cross-checked against the TLA+ definitions by "
         "BNSelfTest at setup); the harness's event logging; the transcription of ristretto.sage's *Spec functions into "
         "spec/Decaf.tla. Assurance is exhaustive only on the toy curves; at the real parameters it is bounded by the "
         "inputs driven (structured alphabets completely, seeded random beyond).")
CHECKS = {
 "C01": ("Toy: TLC enumerates every point of 2E in every projective rescaling, every field element and every byte string of "
         "the encoding length on toy curves with decaf377's structure and checks decode(encode)=id, encode(decode)=id, "
         "|accepted| = r. Real: random straight-line programs, random/near-miss strings and the strings TLC enumerates in "
         "DecodePlan (near misses, valid encodings at value / limb boundaries and with word patterns; every decoding entry "
         "point incl. fragmenting readers) and decoder inputs constructed for every inner square-root class, on both builds; "
         "every round-trip event is recomputed by TLC from EncodeSpec/DecodeSpec.", "5 C01"),
 "C02": ("Toy: exhaustive equivalence of the coded decoder (top-bits check, canonical parse, sign, was_square) with "
         "DecodeSpec on every byte string. Real: near misses of real encodings (s+kq aliases, q-s, every single-bit flip, "
         "high bits), absolute edge values, limb-wise comparison boundaries, valid encodings at boundaries / with word patterns "
         "(DecodePlan, enumerated by TLC with the expected verdict), inputs constructed for every inner square-root class, all "
         "slice lengths 0..80, random strings, through every decoding entry point of both builds incl. stream readers that "
         "return short reads; verdict, error class and element recomputed by TLC.", "5 C02"),
 "C03": ("Toy: EncodeImpl of every rescaling of either coset member = EncodeSpec, injective across cosets. Real: every "
         "encoding entry point on the element alphabet (both identity representatives, B+T2, -B, 2B with Z!=1, rescalings) "
         "and on every intermediate value of random programs; the valid encodings of DecodePlan (value / limb boundaries, word "
         "patterns) re-encoded from six representatives through every encoder, incl. short-write writers; the serialisation of "
         "affine results observed directly; bytes recomputed by TLC from the logged representative.", "5 C03"),
 "C04": ("Toy: extended-coordinate add/double/neg = affine law on ALL pairs of curve points and all rescalings. Real: every "
         "operator impl (46 add/sub/neg/double/sum/conversion forms in the arkworks build, 14 in the minimal build) x every "
         "ordered pair of the 14-representative alphabet (both coset members, Z = 1 and Z != 1, both shapes of the identity), "
         "aliasing forms (the same object on both sides), iterator sums up to 1030 items, random programs mixing all forms and "
         "TLC-simulated behaviours of the Session state machine replayed into the code; each result checked by TLC against "
         "the affine Edwards law modulo the coset.", "5 C04"),
 "C05": ("Toy: the bit ladder = k-fold sum for every point of E and every k in 0..4r+3 with trailing zero bits. Real: every "
         "Mul/MulAssign impl, mul_bigint / scalar_mul(_vartime), msm forms x scalar alphabet (0,1,2,r-1,(r+-1)/2,2^k,2^k-1,"
         "all-ones limbs, word patterns 0x55../0xAA.., r, r+1, 2r-1, integers of 5..17 limbs, the exceptional integers of LSB- and "
         "MSB-first ladders) -- every form x every alphabet scalar -- and random scalars incl. [2^250, r); MSMs of up to 300 "
         "terms (2049 thorough) around window thresholds; k-fold sums recomputed by TLC with the affine law; r*P = identity "
         "for the alphabet.", "5 C05"),
 "C09": ("Toy: the table-driven (Sarkar) routine and the constant-time Tonelli-Shanks routine, transcribed generically in "
         "(two-adicity, window), are checked against the four-case contract on EVERY pair (num, den) of toy fields with "
         "two-adicity 5..8 and window layouts of decaf377's shape; a table miss is an explicit value. Real: TLC generates the "
         "inputs by their 2-primary component (every value of every table-digit window of the discrete log, single bits, "
         "roots of unity of every order 2^k, zeta^k, zero operands; three presentations of each ratio); both builds' routines "
         "run on them and on random pairs, plus a 16-thread first-use race; every result is checked by TLC against the "
         "contract predicate; Field::sqrt / legendre against Euler's criterion on three fields.", "5 C09"),
 "C10": ("Real: every operator/method form of the three fields in both builds (27 binary forms, 15 unary, Sum/Product, "
         "conditional_select, ct_eq, pow/power, From<int>) on the limb-pattern operand alphabet and on random chained "
         "operations; every result recomputed by TLC as integer arithmetic mod p (BN number sort).", "5 C10"),
 "C11": ("Real: serialisers x constructors on canonical values, checked parsers on p-1, p, p+1, 2^k, all-ones and wrong "
         "lengths, reduction of byte strings of every length 0..200 in both endiannesses, flag (de)serialisation for "
         "Empty/SW/TE flags incl. mutated top bits, decimal strings, ordering, hashing; all expected values computed by "
         "TLC from the integer the harness chose before it entered the library.", "5 C11"),
 "C06": ("Toy: In2E characterises 2E (= image of doubling) and is equivalent to 'decodes back to itself and has order | r' "
         "on every curve point of every toy curve. Real: from_random_bytes on structured (y = 0, +-1, small, sign flag, all "
         "lengths 0..64) and random strings, the four samplers on seeded ChaCha streams and on masked (adversarial-prefix) streams, "
         "every constant and conversion, normalize_batch / batch_convert_to_mul_base on mixed representatives, on batches with "
         "related Z coordinates and on long batches (255..600), every mode of the stream deserialisers (a mode that is not "
         "offered hands out nothing) on valid, invalid and out-of-group inputs; every point handed out is logged and TLC checks "
         "OnCurve and In2E (Euler criterion) on it.", "5 C06"),
 "C07": ("Toy: the coded Elligator map = elligatorSpec modulo the coset for every r0, both square-root signs, two zetas per "
         "field; sign symmetry; output in 2E; num*den != 0. Real: 0, +-1, +-2..16, zeta, 2^k, random r0, inputs constructed "
         "(polynomial root finding) for every inner square-root class, the two-input hash on all ordered pairs of a structured "
         "set and on constructed pairs with equal / opposite images or shared intermediates, TLC-simulated Session "
         "behaviours, on both builds; every output recomputed by TLC from the unoptimised ElligatorSpec.", "5 C07"),
 "C08": ("Toy: equality test = coset relation = equality of encodings on all pairs of 2E. Real: all ordered pairs of the element "
         "alphabet through every ==/identity-predicate form (constant on either side), predicates applied directly to the affine "
         "results of affine-typed operators, representatives with word patterns installed in their coordinates (rescaling hook), "
         "hashing with a fixed hasher of single values and of containers of 1..300 copies; recipes that manufacture equal "
         "elements with different representatives ((-1)*Q vs -Q, P+Q-Q vs P, Q+(-1)Q vs O); the trace spec keeps the set of "
         "(type, encoding, hash) seen and rejects a second hash for the same encoding.", "5 C08"),
 "C12": ("Equiv.tla: two replicas (arkworks build, minimal build) consume one operation stream made only of calls both builds "
         "offer (12 add/sub forms, neg, double, 10 scalar-multiplication forms, 8 decoding entry points on valid / mutated / "
         "random / wrong-length strings, 5 encoding forms, Elligator and the two-input hash, equality and identity predicates; "
         "for each of the three fields 27 binary forms, unary forms, sums/products, From<int>, serialisation, checked parsing, "
         "reduction of strings of length 0..200, ordering, hashing; Fq select / ct_eq / power). The driver zips the two "
         "transcripts; TLC accepts a pair only if call, arguments and every observable (all logged fields but the internal "
         "representative) are identical, and each transcript is separately validated as a behaviour of Session / FieldAPI. The "
         "paired streams also run on the CONSTRUCTED inputs: Elligator / decoder inputs for every inner square-root class, "
         "DecodePlan strings, colliding Elligator pairs, FieldPlan operand pairs.", "5 C12"),
 "C13": ("Toy: the constraint blocks of compress / decompress / Elligator as coded (L2 predicates Sat(inputs, hints)) are "
         "complete with honest hints -- satisfied iff the native operation succeeds, forced outputs = native outputs, root "
         "sign irrelevant -- on every input of six toy curves; the lazy variable of lazy.rs is a TLA+ state machine whose "
         "every accessor-call sequence is explored (values never change, constraints only on the single transition, no "
         "unreachable!() arm). Real: 35 gadgets x allocation modes synthesised on fresh constraint systems over all "
         "representatives of the element alphabet, valid/invalid/negated encodings and random inputs; satisfaction and output "
         "values checked by TLC against L0/L1 (scalar multiplication also on exceptional 256-bit scalars); every call sequence of "
         "length <= 4 (5 thorough) over accessors and in-place operations, and <= 3 (4) including conditional selection against "
         "a second cached variable and enforce_equal with a twin, generated by TLC from LazyVar.tla, is replayed into a CLONE of "
         "the real ElementVar from both initial states with per-call constraint deltas, the original being read afterwards.", "5 C13"),
 "C14": ("Toy (the core): every input x EVERY hint pair (flag, y) in BOOLEAN x F_p: the set of satisfying hints that break the "
         "isqrt contract is exactly {den = 0, flag, y = +-1}; its only consequence is in-circuit decode of s = -1; compress "
         "and Elligator are unaffected. Real: hook-substituted hints (0, +-1, +-sqrt(1/x), +-sqrt(zeta/x), flipped flags, "
         "random) x input classes for isqrt/decompress/Elligator/compress, and offered witness coordinates (other coset member, "
         "rescaled/off-curve/random pairs, curve points outside 2E): whenever the real constraint system is satisfied TLC "
         "checks the output equals the native result and the native operation accepts. The den = 0 hole is a recorded known "
         "finding (known_findings.txt). Bit-decomposition witnesses are substituted as well: every window of 253 Boolean witnesses "
         "holding a canonical c with c + q < 2^253 is overwritten by the bits of c + q (seeded change S102).", "5 C14"),
 "C15": ("Circuit registry in R1csTrace.tla: the shape (constraints, instance and witness variables, hash of the A/B/C matrices) "
         "of each gadget x mode and of the seven pinned circuits is bound at first observation and must be reproduced for every "
         "input and in setup vs proving mode; a public-input element contributes exactly one instance variable = EncodeSpec = "
         "ToConstraintField; Groth16 proofs made with the pinned proving keys verify under the pinned verifying keys and are "
         "rejected for other public inputs, with the public inputs recomputed by TLC.", "5 C15"),
 "C16": ("Pairing.tla: G1, G2, GT as exponent groups modulo q; state = tables exponent -> observed bytes. Both engines run in one "
         "binary on the scalar alphabet and seeded scalars: TLC requires byte-identical generators, compressed/uncompressed "
         "serialisations, cross-deserialisation, scalar multiples and pairing outputs, and keeps the tables functional and "
         "injective (bilinearity: e(aG1,bG2) depends only on ab and equals e(G1,G2)^(ab); non-degeneracy; additivity of the "
         "module action), over several factorisations of the same product, multi-pairings and MSMs. Both generators are "
         "checked by TLC against their curves (order exactly q). The specification also RECOMPUTES recorded results itself: "
         "k*G1 and k*G2 with its own affine group laws over Fp / Fp2, the ate pairing (Fp6/Fp12 tower, Miller loop over the "
         "D-type twist, final exponentiation; named deviation: arkworks returns the cube of the reduced pairing) for e(0,G2), "
         "e(G1,G2) and one random pair in the thorough tier, and e(G1,G2)^(ab) by exponentiation in Fp12; all other events use "
         "the reference engine as the byte oracle, as the property states. Non-canonical coordinate strings, constructed G2 "
         "x-coordinates (special Fp2 square-root branch), Jacobian representatives with sparse-Montgomery z and operations on "
         "the generator constants as stored are driven through both engines.", "5 C16"),
 "C17": ("Exhaustive over the finite list of public constants of both builds (105 + 41 constant reads): each is dumped by the "
         "harness as a canonical integer and TLC checks its defining equation recomputed from the modulus / curve alone "
         "(2*HALF+1=p, bit size, two-adicity by definition, TRACE*2^s=p-1 odd, generator = conventional one and g^((p-1)/l)!=1 "
         "for every known prime l | p-1 (complete for Fr and Fq), root of unity = g^t of exact order 2^s, least-non-residue^t, "
         "2^(8N) mod p, sqrt precomputation, a=-1, d=3021 and d, d-a, zeta non-squares, generator = decode(8) with 8 least, "
         "r*B = O, Montgomery-form coefficients, cofactors, BLS parameter equations q = x^4-x^2+1, p = (x-1)^2 q/3 + x).", "5 C17"),
}
TECH = "TLA+ specification model-checked with TLC on toy curves + TLC trace validation of recorded executions of both builds (spec evaluated at the real parameters)"
def main():
    checks = []
    for pid, (text, ref) in sorted(CHECKS.items()):
        checks.append({
            "property_id": pid,
            "quick_cmd": "./check %s --tier quick" % pid,
            "thorough_cmd": "./check %s --tier thorough" % pid,
            "evidence_file": "evidence/%s.json" % pid,
            "replay_cmd_template": "./check replay {path}",
            "engine": "tlc",
            "level_claimed": {"category": "model_checking", "text": text, "design_ref": "DESIGN.md section " + ref},
            "level_note": TRUST,
            "technique": TECH,
        })
    na_path = os.path.join(VERIF, "tools", "not_applicable.json")
    na = json.load(open(na_path)) if os.path.exists(na_path) else []
    claimed = set(CHECKS)
    na = [x for x in na if x["property_id"] not in claimed]
    m = {
        "version": 1,
        "setup_cmd": "./check setup",
        "hooks": {
            "guard": "decaf377_verif",
            "enable": "RUSTFLAGS='--cfg decaf377_verif' (set in harness/.cargo/config.toml; the harness crate depends on /repo by path)",
            "baseline_off_cmd": "cd /repo && cargo test --workspace --no-fail-fast --offline",
            "source_commits": ["08baf13"],
            "add_only": True,
        },
        "engines": [{"name": "tlc", "path": "tools/vlib.py", "serves_properties": sorted(CHECKS),
                     "kind_free_text": "TLC 1.8.0 explicit-state model checker: exhaustive toy instantiation + trace validation at real parameters"}],
        "checks": checks,
        "not_applicable": na,
        "notes": "See DESIGN.md. known_findings.txt lists recorded/fixed defects.",
    }
    json.dump(m, open(os.path.join(VERIF, "MANIFEST.json"), "w"), indent=1)
if __name__ == "__main__":
    main()
