"""Per-property check definitions: which toy models, which recorded suites, which event kinds."""
from vlib import *

TOY_QUICK = [13, 17, 29, 41, 73, 97]
TOY_ALL = [13, 17, 29, 41, 73, 97, 113, 193, 257]


def toy_cfgs(modes, tier, quick=None):
    ps = TOY_ALL if tier == "thorough" else (quick or TOY_QUICK)
    idx = open(os.path.join(SPEC, "cfg", "INDEX")).read().split()
    out = []
    for name in idx:
        m = re.match(r"MC_Decaf_p(\d+)_z(\d+)_(\w+)\.cfg", name)
        if m and int(m.group(1)) in ps and m.group(3) in modes:
            out.append(("MC_Decaf.tla", "cfg/" + name))
    return out


def scale(tier, q, t):
    return t if tier == "thorough" else q



def dbg(c, suites):
    """the same suites on the builds with debug assertions and overflow checks ON (the crate has debug_assert!-only
    checks and its own test suite runs with them): small sizes, structured parts"""
    for (which, suite, n, arg, kw) in suites:
        c.trace(which, suite, n, arg, **kw)
    c.notes.append("also run with debug assertions / overflow checks enabled: " + ", ".join(sorted({"%s/%s" % (w, su) for (w, su, _, _, _) in suites})))

def c01(c):
    build_both()
    c.mc(toy_cfgs(["point", "field", "bytes"], c.tier) + session_cfgs(c.tier))
    plan, n = gen_plan("DecodePlan.tla", "cfg/DecodePlan.cfg", "dec")
    c.notes.append("DecodePlan: %d strings enumerated by TLC (near misses of 6 base encodings, absolute edge values, the first valid "
                   "encodings below/above the modulus and every limb boundary) round-tripped in both directions" % n)
    ell, dec, st = gen_isqrt_inputs(scale(c.tier, 16, 1))
    c.notes.append("decoder inputs constructed so that the inner square-root-of-ratio call sees the table-digit classes of SqrtPlan: %s" % st)
    for b in ("ark", "min"):
        c.trace(b, "rtfile", 0, dec)
        c.trace(b, "rtfile", 0, plan)
        c.trace(b, "prog", scale(c.tier, 60, 1200), 40)
        c.trace(b, "rt2rand", scale(c.tier, 1500, 30000))
        c.trace(b, "rt2near", scale(c.tier, 60, 1500))
    dbg(c, [("arkdbg", "rt2near", 20, "", {}), ("mindbg", "rt2near", 20, "", {})])
    return c.finish(rule="distinct (build, event kind, encode form / decode entry point) combinations in validated "
                         "round-trip events (rt: compress->decompress->==, rt2: decompress->compress); toy part: every "
                         "point of 2E in every rescaling, every field element, every byte string of the encoding length")


def session_cfgs(tier):
    ps = [13, 17, 29, 41] if tier != "thorough" else [13, 17, 29, 41, 73]
    return [("MC_Session.tla", "cfg/MC_Session_p%d.cfg" % p) for p in ps]


def replay_decode_plan(c, which, plan):
    """spec -> implementation: run the real decoders on the strings TLC enumerated and compare every
    verdict / error class with what TLC computed beforehand (DecodeBytes); then also validate the events"""
    exp = {}
    classes = {}
    for l in open(plan):
        e = json.loads(l)
        exp[tuple(e["b"])] = (e["ok"], e["err"])
        classes[e["cls"]] = classes.get(e["cls"], 0) + 1
    lines = record(which, "decfile", 0, plan)
    bad = 0
    for l in lines:
        e = json.loads(l)
        if e.get("k") != "dec":
            continue
        want = exp.get(tuple(e["b"]))
        if want is None:
            raise ToolError("decode plan replay: event for a string that is not in the plan")
        if "panic" in e or (e.get("ok"), e.get("err")) != want:
            bad += 1
            sg = (which, "plan-dec", e.get("entry"))
            if sg not in c.viol_sigs:
                c.viol_sigs[sg] = 0
                p = os.path.join(OUT, c.prop, "plan_%s_%d.json" % (which, len(c.violations)))
                json.dump({"property": c.prop, "build": which, "event": e, "expected_ok": want[0], "expected_err": want[1]}, open(p, "w"))
                c.violations.append(("[%s build] decode plan: entry %s returned ok=%s err=%s on %s, the specification says ok=%s err=%s"
                                     % (which, e.get("entry"), e.get("ok"), e.get("err"), e["b"], want[0], want[1]), p, sg))
            c.viol_sigs[sg] += 1
    c.notes.append("DecodePlan (%s): %d strings enumerated by TLC, classes %s; %d decoder calls replayed, %d disagreements"
                   % (which, len(exp), classes, sum(1 for l in lines if '"k":"dec"' in l), bad))
    c.validate_lines(lines, which + "_decfile", which=which)


def c02(c):
    build_both()
    c.mc(toy_cfgs(["bytes", "field"], c.tier))
    plan, n = gen_plan("DecodePlan.tla", "cfg/DecodePlan.cfg", "dec")
    c.exhaustive_parts.append("for 6 base encodings: every alias s+jq < 2^256, q-s, s+-1, all 256 single-bit flips, bits 253..255; 10 absolute edge values; through every entry point for the first 300")
    ell, dec, st = gen_isqrt_inputs(scale(c.tier, 16, 1))
    c.notes.append("decoder inputs constructed so that the inner square-root-of-ratio call sees the table-digit classes of SqrtPlan: %s" % st)
    for b in ("ark", "min"):
        replay_decode_plan(c, b, plan)
        c.trace(b, "decfile", 0, dec)
    for b in ("ark", "min"):
        c.trace(b, "decnear", scale(c.tier, 6, 120))
        c.trace(b, "decrand", scale(c.tier, 2000, 40000))
    dbg(c, [("arkdbg", "decnear", 5, "", {}), ("mindbg", "decnear", 5, "", {})])
    return c.finish()


def c03(c):
    build_both()
    c.mc(toy_cfgs(["point", "pair"], c.tier))
    plan, n = gen_plan("DecodePlan.tla", "cfg/DecodePlan.cfg", "dec")
    c.notes.append("DecodePlan: %d strings; its valid encodings at value / limb boundaries and with word patterns (a 64- or 32-bit limb "
                   "all ones, all zeros, equal to the modulus' limb +-1) are decoded and re-encoded from six representatives "
                   "(coset member, two rescalings, double negation, P+B-B) through every encoder" % n)
    for b in ("ark", "min"):
        c.trace(b, "rtfile", 0, plan)
        c.trace(b, "obs", scale(c.tier, 2, 30))
        c.trace(b, "prog", scale(c.tier, 60, 1200), 40)
        # affine round trips and batch normalisation must hand back the same element (its encoding is unchanged)
        c.trace(b, "ctor", scale(c.tier, 50, 500), kinds=["conv"])
    dbg(c, [("arkdbg", "obs", 1, "", {}), ("mindbg", "obs", 1, "", {})])
    return c.finish()


def splan(c):
    plan, n = gen_session_plan(num=scale(c.tier, 40, 600))
    for b in ("ark", "min"):
        replay_session_plan(c, b, plan)


def c04(c):
    build_both()
    splan(c)
    c.mc(toy_cfgs(["pair", "point"], c.tier) + session_cfgs(c.tier))
    for b in ("ark", "min"):
        c.trace(b, "forms", 1)
        c.trace(b, "coset", scale(c.tier, 40, 800))
        c.trace(b, "prog", scale(c.tier, 80, 2000), 40)
    dbg(c, [("arkdbg", "forms", 1, "", {}), ("mindbg", "forms", 1, "", {})])
    return c.finish()


def c05(c):
    build_both()
    splan(c)
    c.mc(toy_cfgs(["scalar"], c.tier, quick=[13, 17, 29, 41]))
    for b in ("ark", "min"):
        c.trace(b, "mulforms", 1)            # every form x every scalar of the alphabets
        c.trace(b, "order", scale(c.tier, 1, 20))
        c.trace(b, "progmul", scale(c.tier, 40, 800), 12)
        c.trace(b, "msm", scale(c.tier, 10, 200))
    dbg(c, [("arkdbg", "mulforms", 6, "", {}), ("mindbg", "mulforms", 6, "", {}), ("arkdbg", "order", 1, "", {}), ("mindbg", "order", 1, "", {})])
    return c.finish()


def c07(c):
    build_both()
    splan(c)
    c.mc(toy_cfgs(["field"], c.tier))
    ell, dec, st = gen_isqrt_inputs(scale(c.tier, 16, 1))
    c.notes.append("Elligator inputs constructed so that the inner square-root-of-ratio call sees every table-digit class of "
                   "SqrtPlan (boundary dlogs, roots of unity of every order, single bits, zeta^k, every %s digit value): %s"
                   % ("16th" if c.tier != "thorough" else "", st))
    pairs, pst = gen_elligator_pairs(scale(c.tier, 60, 1000))
    c.notes.append("two-input hash on input pairs constructed (tools/elligator_pairs.py: roots of S den - num, S den - r num, r -> 1/r) "
                   "as candidates for equal or opposite images: %s" % pst)
    for b in ("ark", "min"):
        c.trace(b, "ellfile", 0, ell)
        c.trace(b, "h2cfile", 0, pairs)
        c.trace(b, "ell", scale(c.tier, 1500, 40000))
    dbg(c, [("arkdbg", "ell", 100, "", {}), ("mindbg", "ell", 100, "", {})])
    return c.finish()


def c08(c):
    build_both()
    splan(c)
    c.mc(toy_cfgs(["pair"], c.tier) + session_cfgs(c.tier))
    for b in ("ark", "min"):
        c.trace(b, "obs", scale(c.tier, 2, 30))
        c.trace(b, "coordpat", scale(c.tier, 1, 6))
        c.trace(b, "coset", scale(c.tier, 40, 800))
        c.trace(b, "prog", scale(c.tier, 40, 800), 40)
    c.exhaustive_parts.append("identity / equality predicates, hashes and encodings on representatives whose X or Y coordinate was set (rescaling "
                              "hook) to 12 word patterns, as canonical value and as Montgomery form, for four base elements")
    dbg(c, [("arkdbg", "obs", 1, "", {}), ("mindbg", "obs", 1, "", {}), ("arkdbg", "coset", 20, "", {}), ("mindbg", "coset", 20, "", {})])
    return c.finish()


FT = dict(module="FieldTrace.tla", cfg="cfg/FieldTrace.cfg")


def field_cfgs(mode):
    idx = open(os.path.join(SPEC, "cfg", "INDEX")).read().split()
    return [("MC_Field.tla", "cfg/" + n) for n in idx if n.startswith("MC_Field_") and n.endswith("_%s.cfg" % mode)]


def mont_cfgs(tier):
    idx = open(os.path.join(SPEC, "cfg", "INDEX")).read().split()
    names = [n for n in idx if n.startswith("MC_Mont_")]
    if tier != "thorough":
        names = [n for n in names if n.endswith("bad99.cfg") or n == "MC_Mont_p251_w4_bad1.cfg"]
    return [("MC_Mont.tla", "cfg/" + n) for n in names]


def c10(c):
    build_both()
    c.mc(field_cfgs("arith") + mont_cfgs(c.tier))
    plan, n = gen_plan("FieldPlan.tla", "cfg/FieldPlan.cfg", "field")
    c.notes.append("FieldPlan: %d operand pairs generated by TLC by the Montgomery residue of their result (every limb x 7 special "
                   "limb values x 3 fills of the lower limbs x {32,64}-bit limbs x 3 fields x mul/add/sub/div)" % n)
    c.exhaustive_parts.append("result residues with each 32- and 64-bit limb equal to 0, 1, 2^w-1, 2^w-p_i, 2^w-p_i-1, p_i, p_i-1")
    for b in ("ark", "min"):
        c.trace(b, "fieldfile", 0, plan, **FT)
    for b in ("ark", "min"):
        for f in ("Fq", "Fr", "Fp"):
            c.trace(b, "farith_" + f, scale(c.tier, 3000, 120000), **FT)
        c.trace(b, "fqextra", scale(c.tier, 300, 6000), **FT)
    dbg(c, [(w, "farith_" + f, 200, "structured", FT) for w in ("arkdbg", "mindbg") for f in ("Fq", "Fr", "Fp")])
    return c.finish(rule="distinct (build, event kind, field-less call form) combinations in validated field-arithmetic events")


def c11(c):
    build_both()
    c.mc(field_cfgs("bytes") + field_cfgs("arith"))
    for b in ("ark", "min"):
        for f in ("Fq", "Fr", "Fp"):
            c.trace(b, "fconv_" + f, scale(c.tier, 1500, 60000), **FT)
    return c.finish()


def sqrt_cfgs(tier):
    idx = open(os.path.join(SPEC, "cfg", "INDEX")).read().split()
    out = []
    for name in idx:
        m = re.match(r"MC_Sqrt_p(\d+)_w(\d+)_(\w+)\.cfg", name)
        if m and (tier == "thorough" or int(m.group(1)) <= 257):
            out.append(("MC_Sqrt.tla", "cfg/" + name))
    return out


def c09(c):
    build_both()
    c.mc(sqrt_cfgs(c.tier), par=2)
    plan, n = gen_plan("SqrtPlan.tla", "cfg/SqrtPlan.cfg", "sqrt")
    c.notes.append("SqrtPlan: TLC generated %d input pairs by 2-primary component (every value of every table digit window)" % n)
    c.exhaustive_parts.append("every value of each of the 16 table-digit windows of the discrete log (others zero), both polarities, x3 presentations")
    for b in ("ark", "min"):
        c.trace(b, "sqrtfile", 0, plan)
        c.trace(b, "sqrtrand", scale(c.tier, 3000, 150000))
        for i in range(scale(c.tier, 2, 10)):
            c.trace(b, "sqrtrace", 0, sd=seed() * 1000 + i)
    for f in ("Fq", "Fr", "Fp"):
        c.trace("ark", "fsqrt_" + f, scale(c.tier, 600, 20000), **FT)
    dbg(c, [("arkdbg", "sqrtrand", 200, "", {}), ("mindbg", "sqrtrand", 200, "", {})])
    return c.finish()


def c06(c):
    build_both()
    c.mc(toy_cfgs(["point", "field"], c.tier))
    for b in ("ark", "min"):
        c.trace(b, "ctor", scale(c.tier, 600, 20000))
        c.trace(b, "prog", scale(c.tier, 40, 800), 40)
    c.trace("ark", "decrand", scale(c.tier, 800, 20000), kinds=["dec"])
    dbg(c, [("arkdbg", "ctor", 50, "", {})])
    return c.finish()


def c17(c):
    build_both()
    for b in ("ark", "min"):
        c.trace(b, "konst", 0, module="ConstTrace.tla", cfg="cfg/ConstTrace.cfg")
    c.exhaustive_parts.append("the finite list of public constants of both builds (one konst event each)")
    return c.finish(rule="distinct (build, constant name, Rust source of the constant) combinations checked against the "
                         "constant's defining equation", extra={"exhaustive": True})


def c12(c):
    """two replicas, one operation stream: zip the transcripts and validate the pairing (Equiv.tla);
    each transcript is also validated on its own by the Session / FieldAPI trace specs"""
    build_both()
    streams = [("equiv", scale(c.tier, 60, 1500), 40, "SessionTrace.tla", "cfg/SessionTrace.cfg"),
               ("fequiv_Fq", scale(c.tier, 3000, 100000), "", "FieldTrace.tla", "cfg/FieldTrace.cfg"),
               ("fequiv_Fr", scale(c.tier, 3000, 100000), "", "FieldTrace.tla", "cfg/FieldTrace.cfg"),
               ("fequiv_Fp", scale(c.tier, 3000, 100000), "", "FieldTrace.tla", "cfg/FieldTrace.cfg"),
               ("fqextra", scale(c.tier, 300, 6000), "", "FieldTrace.tla", "cfg/FieldTrace.cfg"),
               ("ell", scale(c.tier, 600, 20000), "", "SessionTrace.tla", "cfg/SessionTrace.cfg")]
    # the shared calls on CONSTRUCTED inputs as well: Elligator / decoder inputs whose inner square-root call sees every
    # table-digit class (tools/isqrt_inputs.py), and the structured strings of DecodePlan
    ell, dec, st = gen_isqrt_inputs(scale(c.tier, 16, 1))
    plan, nplan = gen_plan("DecodePlan.tla", "cfg/DecodePlan.cfg", "dec")
    c.notes.append("paired streams on constructed inputs: %s; DecodePlan %d strings" % (st, nplan))
    pairs, pst = gen_elligator_pairs(scale(c.tier, 40, 400))
    fplan, nf = gen_plan("FieldPlan.tla", "cfg/FieldPlan.cfg", "field")
    c.notes.append("paired streams also on Elligator input pairs constructed to have equal / opposite images (%s) and on the %d operand "
                   "pairs of FieldPlan (result residues, equality pairs by residue difference)" % (pst, nf))
    streams += [("equivfile", 0, ell, "SessionTrace.tla", "cfg/SessionTrace.cfg"),
                ("equivfile", 0, dec, "SessionTrace.tla", "cfg/SessionTrace.cfg"),
                ("equivfile", 0, plan, "SessionTrace.tla", "cfg/SessionTrace.cfg"),
                ("equivfile", 0, pairs, "SessionTrace.tla", "cfg/SessionTrace.cfg"),
                ("fequivfile", 0, fplan, "FieldTrace.tla", "cfg/FieldTrace.cfg")]
    for (suite, n, arg, module, cfg) in streams:
        la = record("ark", suite, n, arg)
        lm = record("min", suite, n, arg)
        if suite in ("ell", "decnear"):
            # these suites rotate over build-specific entry-point tables: pair only the events whose call is shared
            pass
        pairs = []
        if len(la) != len(lm) and suite not in ("decnear",):
            raise ToolError("equiv: transcripts of %s differ in length (%d vs %d)" % (suite, len(la), len(lm)))
        if suite != "decnear":
            for x, y in zip(la, lm):
                ex, ey = json.loads(x), json.loads(y)
                ex["build"], ey["build"] = "ark", "min"
                if ex.get("k") == "reset":
                    pairs.append(json.dumps({"k": "reset"}))
                pairs.append(json.dumps({"k": "pair", "ark": ex, "min": ey}, separators=(",", ":")))
            c.validate_lines(pairs, "pair_" + suite, "Equiv.tla", "cfg/Equiv.cfg", kinds=["pair"], which="both")
        c.validate_lines(la, "ark_" + suite, module, cfg, which="ark")
        c.validate_lines(lm, "min_" + suite, module, cfg, which="min")
    return c.finish(rule="distinct (build, event kind, call form) combinations in the paired streams; a pair is accepted iff "
                         "both builds logged identical calls, arguments and observables")


RT = dict(module="R1csTrace.tla", cfg="cfg/R1csTrace.cfg")


def gadget_cfgs(tier):
    idx = open(os.path.join(SPEC, "cfg", "INDEX")).read().split()
    out = []
    for name in idx:
        m = re.match(r"MC_Gadgets_p(\d+)_(\w+)\.cfg", name)
        if m and (tier == "thorough" or int(m.group(1)) <= 41):
            out.append(("MC_Gadgets.tla", "cfg/" + name))
    return out


def c13(c):
    build("ark")
    c.mc(gadget_cfgs(c.tier) + [("LazyVar.tla", "cfg/LazyVar.cfg")])
    plan, n, st = gen_lazy_plans(["cfg/LazyPlan5.cfg", "cfg/LazyPlanSel4.cfg"] if c.tier == "thorough" else ["cfg/LazyPlan.cfg", "cfg/LazyPlanSel.cfg"])
    c.states += st
    c.transitions += st
    c.notes.append("LazyVar: TLC enumerated %d call sequences over {compress, cs, value, double_in_place, negate, +=, -=, select-other, select-self} from both initial states; all replayed into the real gadget" % n)
    c.exhaustive_parts.append("every sequence of <= 4 (thorough: 5) accessor / in-place-operation calls, and of <= 3 (thorough: 4) calls including conditional selection against a second variable with a cached encoding, x {from encoding, from element}; pure accessor sequences also on identity / invalid / random inputs")
    for cmd in apalache_inductive("LazyVarInd.tla", "Init", "IndInit", "IndInv", "Safety"):
        c.tlc_cmds.add(cmd)
    c.notes.append("LazyVarInd: cache coherence / single transition per value / pair completeness hold for UNBOUNDED call sequences "
                   "(inductive invariant discharged by Apalache: Init => IndInv, IndInv /\\ Next => IndInv', IndInv => Safety)")
    c.trace("ark", "lazy", 0, plan, **RT)
    c.trace("ark", "gadgets", scale(c.tier, 40, 1500), **RT)
    return c.finish(rule="distinct (gadget, allocation mode) combinations synthesised honestly plus distinct forcing sequences")


def c14(c):
    build("ark")
    c.mc(gadget_cfgs(c.tier))
    c.trace("ark", "hints", scale(c.tier, 12, 500), **RT)
    # an invalid encoding must not survive ANY way of using the variable as an element: accessor / comparison
    # sequences on a variable allocated from an invalid encoding (and from valid ones), as lazy-variable traces
    qplan = os.path.join(WORK, "plan_lazy_q_%d.txt" % os.getpid())
    seqs = ["Q", "QQ", "QC", "CQ", "EQ", "VQ", "QV", "V", "VC", "CV", "E", "C", "CQC", "QCQ",
            # a satisfied system must also mean that the OUTPUT (encoding / value read afterwards) is the native one,
            # whatever the variable went through in between
            "CDC", "CPC", "CMC", "CNC", "CSC", "CTC", "DC", "PC", "VDC", "CDV", "CDQC", "CPDC"]
    open(qplan, "w").write("\n".join(seqs) + "\n")
    c.trace("ark", "lazy", 0, qplan, kinds=["lazy_new", "lazy_op", "lazy_end", "lazy_orig"], **RT)
    c.exhaustive_parts.append("variables allocated from valid / identity / invalid / random encodings driven through %d accessor and "
                              "equality-enforcing call sequences: satisfied iff the encoding is valid or was never used as an element" % len(seqs))
    return c.finish(rule="distinct (gadget, input class, substituted hint) combinations; toy part: every input x every "
                         "(flag, y) in BOOLEAN x F_p on toy curves")


def c15(c):
    build("ark")
    c.trace("ark", "shapes", scale(c.tier, 3, 60), **RT)
    c.trace("ark", "groth16", scale(c.tier, 3, 40), **RT)
    c.trace("ark", "circuits", scale(c.tier, 10, 300), **RT)
    return c.finish(rule="distinct (gadget or circuit, allocation mode) shapes compared over inputs and setup/prove mode, "
                         "plus Groth16 prove/verify cases under the pinned keys")


def c16(c):
    build("ark")
    # one TLC run per trace: the observation tables must span the whole history
    pts = os.path.join(WORK, "g1pts_%d.ndjson" % os.getpid())
    r = subprocess.run([sys.executable, os.path.join(VERIF, "tools", "g1_points.py"), pts, str(scale(c.tier, 40, 2000)), str(seed())],
                       capture_output=True, text=True)
    if r.returncode != 0:
        raise ToolError("g1_points.py failed: " + r.stderr[-1000:])
    c.notes.append("G1 points with y at distance t from (p-1)/2, 0, p-1 (cube roots found over Fp): " + r.stdout.strip())
    c.trace("ark", "blspts", 0, pts, module="Pairing.tla", cfg="cfg/Pairing.cfg")
    # several traces validated concurrently, each by ONE TLC run (the tables are state)
    runs = scale(c.tier, 3, 32)
    traces = [record("ark", "bls", scale(c.tier, 60, 100), "", seed() * 100 + i) for i in range(runs)]
    with ThreadPoolExecutor(min(runs, NCPU)) as ex:
        list(ex.map(lambda t: c.validate_lines(t[1], "ark_bls_%d" % t[0], "Pairing.tla", "cfg/Pairing.cfg", None, "ark", 1), enumerate(traces)))
    return c.finish(rule="distinct (event kind, group) combinations; every event compares the crate's engine with the "
                         "reference engine byte for byte and against the exponent-group model",
                    assumptions=["the reference engine ark-bls12-377 0.4 is the oracle for byte-level outputs (the pairing "
                                 "function itself is not transcribed into TLA+); TLC itself checks the G1 generator against the "
                                 "curve equation and its order, and bilinearity / non-degeneracy / module action through the "
                                 "functional-and-injective observation tables"])


CHECKS = {"C16": c16, "C13": c13, "C14": c14, "C15": c15, "C12": c12, "C17": c17, "C06": c06, "C09": c09, "C10": c10, "C11": c11, "C01": c01, "C02": c02, "C03": c03, "C04": c04, "C05": c05, "C07": c07, "C08": c08}
