#!/usr/bin/env python3
"""Generate the .cfg files of the toy and real instantiations into spec/cfg/."""
import os, sys
here = os.path.dirname(os.path.abspath(__file__))
spec = os.path.join(here, "..", "spec")

TOY = [(13,5),(17,5),(29,2),(41,6),(73,10),(97,14),(113,5),(193,37),(257,19)]

def nonres(p):
    return [z for z in range(2, p) if pow(z, (p-1)//2, p) == p-1]
def twoad(p):
    s, t = 0, p-1
    while t % 2 == 0: s += 1; t //= 2
    return s
def order(p, d):
    n = 0
    for x in range(p):
        for y in range(p):
            if (-x*x + y*y - 1 - d*x*x*y*y) % p == 0: n += 1
    return n

INT_OPS = """ NAdd <- IntAdd
 NSub <- IntSub
 NMul <- IntMul
 NMod <- IntMod
 NDiv <- IntDiv
 NLess <- IntLess
 NShr1 <- IntShr1
 NBits <- IntBits
 NIsOdd <- IntIsOdd
 NPowMod <- IntPowMod
 NPow2 <- IntPow2
 NFromNat <- IntFromNat
 NFromBytes <- IntFromBytes
 NToBytes <- IntToBytes
"""
BN_OPS = """ NAdd <- BNAdd
 NSub <- BNSub
 NMul <- BNMul
 NMod <- BNMod
 NDiv <- BNDiv
 NLess <- BNLess
 NShr1 <- BNShr1
 NBits <- BNBits
 NIsOdd <- BNIsOdd
 NPowMod <- BNPowMod
 NPow2 <- BNPow2
 NFromNat <- BNFromNat
 NFromBytes <- BNIdent
 NToBytes <- BNToBytes
"""

def toy_curve_consts(p, d, zeta):
    return (" P = %d\n A = %d\n D = %d\n Zeta = %d\n TwoAdicity = %d\n EncLen = %d\n FieldBits = %d\n"
            % (p, p-1, d, zeta, twoad(p), 1 if p < 256 else 2, p.bit_length()))

def main():
    os.makedirs(os.path.join(spec, "cfg"), exist_ok=True)
    index = []
    for (p, d) in TOY:
        n = order(p, d); assert n % 4 == 0
        r = n // 4
        zs = nonres(p)
        zetas = [zs[0], zs[len(zs)//2]] if p > 13 else [zs[0]]
        for zi, zeta in enumerate(zetas):
            for mode in ["point", "pair", "field", "bytes", "scalar"]:
                if zi > 0 and mode not in ("field",):
                    continue   # zeta only matters for Elligator / sqrt contract
                name = "MC_Decaf_p%d_z%d_%s.cfg" % (p, zeta, mode)
                inv = {"point":"InvPoint","pair":"InvPair","field":"InvField","bytes":"InvBytes","scalar":"InvScalar"}[mode]
                open(os.path.join(spec, "cfg", name), "w").write(
                    "CONSTANTS\n" + toy_curve_consts(p, d, zeta) + (" R = %d\n Mode = \"%s\"\n" % (r, mode)) + INT_OPS +
                    "INIT Init\nNEXT Next\nINVARIANT %s\nCHECK_DEADLOCK FALSE\n" % inv)
                index.append(name)
    # field wrappers: (P, ByteBase, N8)
    for (p, bb, n8) in [(13, 4, 2), (97, 16, 2), (29, 4, 3), (11, 2, 4), (61, 4, 3)]:
        for mode in ["arith", "bytes"]:
            if mode == "bytes" and bb ** (3 * n8) > 300000:
                continue
            name = "MC_Field_p%d_b%d_%s.cfg" % (p, bb, mode)
            open(os.path.join(spec, "cfg", name), "w").write(
                "CONSTANTS\n P = %d\n ByteBase = %d\n N8 = %d\n Mode = \"%s\"\nINIT Init\nNEXT Next\nINVARIANT %s\nCHECK_DEADLOCK FALSE\n"
                % (p, bb, n8, mode, "InvArith" if mode == "arith" else "InvBytes"))
            index.append(name)
    # word-level Montgomery multiplication: (P, W, NL, BadLink)
    for (p, w, nl, bad) in [(251, 4, 2, 99), (251, 4, 2, 1), (241, 2, 4, 99), (241, 2, 4, 1), (241, 2, 4, 3), (127, 7, 1, 99)]:
        name = "MC_Mont_p%d_w%d_bad%d.cfg" % (p, w, bad)
        open(os.path.join(spec, "cfg", name), "w").write(
            "CONSTANTS\n P = %d\n W = %d\n NL = %d\n BadLink = %d\nINIT Init\nNEXT Next\nINVARIANT InvMont\nCHECK_DEADLOCK FALSE\n" % (p, w, nl, bad))
        index.append(name)
    # the API state machine on toy curves
    for (p, d) in TOY[:5]:
        n = order(p, d); r = n // 4
        zeta = nonres(p)[0]
        name = "MC_Session_p%d.cfg" % p
        open(os.path.join(spec, "cfg", name), "w").write(
            "CONSTANTS\n" + toy_curve_consts(p, d, zeta) + (" R = %d\n GroupOrder = %d\n MaxSteps = 3\n Regs <- ToyRegs\n Forms <- ToyForms\n" % (r, r)) + INT_OPS +
            "SPECIFICATION MSpec\nVIEW view\nINVARIANT InvAll\nCHECK_DEADLOCK FALSE\n")
        index.append(name)
    # C13/C14: gadget constraint blocks, all inputs x all hint pairs
    for (p, d) in TOY[:6]:
        n = order(p, d); r = n // 4
        zeta = nonres(p)[0]
        for mode in ["decode", "compress", "elligator"]:
            name = "MC_Gadgets_p%d_%s.cfg" % (p, mode)
            inv = {"decode":"InvDecode","compress":"InvCompress","elligator":"InvElligator"}[mode]
            open(os.path.join(spec, "cfg", name), "w").write(
                "CONSTANTS\n" + toy_curve_consts(p, d, zeta) + (" R = %d\n Mode = \"%s\"\n" % (r, mode)) + INT_OPS +
                "INIT Init\nNEXT Next\nINVARIANT %s\nCHECK_DEADLOCK FALSE\n" % inv)
            index.append(name)
    # C09: square-root routines on fields of larger two-adicity; (p, W)
    for (p, w) in [(97, 2), (193, 2), (193, 4), (257, 3), (641, 3), (769, 3), (769, 5)]:
        zs = nonres(p)
        for mode in ["sarkar", "tonelli"]:
            if mode == "tonelli" and w != [ww for (pp, ww) in [(97, 2), (193, 2), (257, 3), (641, 3), (769, 3)] if pp == p][0]:
                continue
            name = "MC_Sqrt_p%d_w%d_%s.cfg" % (p, w, mode)
            open(os.path.join(spec, "cfg", name), "w").write(
                "CONSTANTS\n P = %d\n Zeta = %d\n TwoAdicity = %d\n W = %d\n Nr = %d\n Mode = \"%s\"\n" % (p, zs[len(zs)//3], twoad(p), w, zs[0], mode)
                + INT_OPS + "INIT Init\nNEXT Next\nINVARIANT %s\nCHECK_DEADLOCK FALSE\n" % ("InvSarkar" if mode == "sarkar" else "InvTonelli"))
            index.append(name)
    open(os.path.join(spec, "cfg", "INDEX"), "w").write("\n".join(index) + "\n")
if __name__ == "__main__":
    main()
