#!/usr/bin/env python3
"""Pairs of Elligator inputs (r1, r2), r1 != +-r2, that are CANDIDATES for mapping to the same group element or to
opposite elements -- the inputs on which a two-input hash that adds the two images meets equal / opposite operands.
With r = zeta r0^2, num(r) = (r+1)(a-2d), den(r) = (d r - (d-a))((d-a) r - d), the map's Jacobi-quartic coordinate
satisfies  s^2 = num/den  (square case) or  s^2 = r num/den  (non-square case).  For a random r0 and each of the two
values S in {num/den, r num/den} this script solves  S den(r') - num(r') = 0  (a quadratic: the other root is
r' = c/(a r) by Vieta) and  S den(r') - r' num(r') = 0  (a cubic) for r', takes r' = 1/r (which gives the
NEGATIVE of the image), and also the r' that share an intermediate value with r (same radicand num*den, same den,
same r num den) without sharing its image; whenever r'/zeta is a square, r0' = sqrt(r'/zeta) is emitted.  It only solves polynomial
equations; whether a pair really collides is decided by the specification when the recorded calls are validated.
usage: elligator_pairs.py <out.ndjson> <n> <seed>      one [[32 bytes],[32 bytes]] per line"""
import json, random, sys, os
sys.path.insert(0, os.path.dirname(os.path.abspath(__file__)))
import isqrt_inputs as P
Q, A, D, ZETA = P.Q, P.A, P.D, P.ZETA
def inv(x): return pow(x, -1, Q)
def main():
    out, n, seed = sys.argv[1], int(sys.argv[2]), int(sys.argv[3])
    rng = random.Random(seed)
    dma = (D - A) % Q
    am2d = (A - 2 * D) % Q
    num_poly = [am2d, am2d]                                   # (r + 1)(a - 2d)
    den_poly = P.pmul([(-dma) % Q, D], [(-D) % Q, dma])      # (d r - (d-a))((d-a) r - d)
    pairs = []
    tries = 0
    while len(pairs) < n and tries < 40 * n + 100:
        tries += 1
        r0 = rng.randrange(2, Q)
        r = ZETA * r0 * r0 % Q
        num = (r + 1) * am2d % Q
        den = (D * r - dma) * (dma * r - D) % Q
        if den == 0 or num == 0:
            continue
        cands = {inv(r)}
        for S in (num * inv(den) % Q, r * num % Q * inv(den) % Q):
            quad = P.psub([S * c % Q for c in den_poly], num_poly)
            cub = P.psub([S * c % Q for c in den_poly], P.pmul([0, 1], num_poly))
            for poly in (quad, cub):
                for rr in P.roots(list(poly), rng):
                    cands.add(rr)
        # inputs that share an INTERMEDIATE value with r without having the same image: the same radicand
        # num*den (what the inner square root sees), the same den, the same r*num*den
        xpoly = P.pmul(num_poly, den_poly)
        for poly, val in ((xpoly, num * den % Q), (den_poly, den), (P.pmul([0, 1], xpoly), r * num % Q * den % Q)):
            shifted = list(poly)
            shifted[0] = (shifted[0] - val) % Q
            for rr in P.roots(shifted, rng):
                cands.add(rr)
        for rr in cands:
            if rr in (r, 0):
                continue
            t = rr * inv(ZETA) % Q
            if pow(t, (Q - 1) // 2, Q) != 1:
                continue
            r0b = P.sqrt_mod(t)
            if r0b is None or r0b in (r0, Q - r0):
                continue
            pairs.append((r0, r0b))
            pairs.append((r0b, (Q - r0) % Q))
    with open(out, "w") as f:
        for a, b in pairs:
            f.write(json.dumps([P.le(a), P.le(b)]) + "\n")
    print(json.dumps({"pairs": len(pairs), "base_inputs_tried": tries}))
if __name__ == "__main__":
    main()
