#!/usr/bin/env python3
"""Driver library: builds the harness from /repo's working tree, records traces, runs TLC
(toy model checking, trace validation, plan generation), classifies rejections, writes
evidence.  Exit codes of ./check: 0 held, 1 violation (with VIOLATION lines), 2 tool error."""
import json, os, re, shutil, subprocess, sys, time, hashlib
from concurrent.futures import ThreadPoolExecutor

VERIF = os.path.dirname(os.path.dirname(os.path.abspath(__file__)))
REPO = os.environ.get("VERIF_REPO", "/repo")
SPEC = os.path.join(VERIF, "spec")
HARNESS = os.path.join(VERIF, "harness")
WORK = os.path.join(VERIF, "work")
OUT = os.path.join(VERIF, "out")
EVID = os.path.join(VERIF, "evidence")
JAR = "/opt/veriftools/tla/tla2tools.jar:/opt/veriftools/tla/CommunityModules-deps.jar"
NCPU = min(16, os.cpu_count() or 4)


class ToolError(Exception):
    pass


def log(*a):
    print(*a, file=sys.stderr, flush=True)


def seed():
    try:
        return int(os.environ.get("VERIF_SEED", "1"))
    except ValueError:
        return 1


# ----------------------------------------------------------------------------- setup / build
def ensure_spec_built():
    """compile BN.java, generate BNRef.tla and the cfg files (idempotent, < 2 s)"""
    cls = os.path.join(SPEC, "BN.class")
    src = os.path.join(SPEC, "BN.java")
    if not os.path.exists(cls) or os.path.getmtime(cls) < os.path.getmtime(src):
        r = subprocess.run(["javac", "-cp", "/opt/veriftools/tla/tla2tools.jar", "BN.java"], cwd=SPEC,
                           capture_output=True, text=True)
        if r.returncode != 0:
            raise ToolError("javac BN.java failed: " + r.stderr)
    for extra in ("SpecJson",):
        src2 = os.path.join(SPEC, extra + ".java")
        cls2 = os.path.join(SPEC, extra + ".class")
        if os.path.exists(src2) and (not os.path.exists(cls2) or os.path.getmtime(cls2) < os.path.getmtime(src2)):
            r = subprocess.run(["javac", "-cp", "/opt/veriftools/tla/tla2tools.jar", extra + ".java"], cwd=SPEC,
                               capture_output=True, text=True)
            if r.returncode != 0:
                raise ToolError("javac %s failed: %s" % (extra, r.stderr))
    subprocess.run([sys.executable, os.path.join(VERIF, "tools", "gen_bnref.py")], check=True)
    subprocess.run([sys.executable, os.path.join(VERIF, "tools", "gen_cfgs.py")], check=True)


_built = {}


def build(which):
    """cargo-build the harness against /repo's current working tree; returns the binary path"""
    if which in _built:
        return _built[which]
    os.makedirs(WORK, exist_ok=True)
    lock = os.path.join(HARNESS, "Cargo.lock")
    if not os.path.exists(lock):
        shutil.copy(os.path.join(REPO, "Cargo.lock"), lock)
    cmd = ["cargo", "build", "--release", "--offline", "--target-dir", "target/" + which]
    if which.startswith("ark"):
        cmd += ["--features", "ark"]
    env = dict(os.environ, CARGO_NET_OFFLINE="true")
    if which.endswith("dbg"):
        # the same optimised build with debug assertions ON (the crate has debug_assert!-only checks, and its own
        # test suite runs with them): a change that only panics under debug assertions is still a change in behaviour
        env["CARGO_PROFILE_RELEASE_DEBUG_ASSERTIONS"] = "true"
        env["CARGO_PROFILE_RELEASE_OVERFLOW_CHECKS"] = "true"
    t0 = time.time()
    r = subprocess.run(cmd, cwd=HARNESS, capture_output=True, text=True, env=env)
    if r.returncode != 0:
        errs = "\n".join(l for l in r.stderr.splitlines() if not l.startswith("warning"))[-4000:]
        raise ToolError("harness build (%s) failed:\n%s" % (which, errs))
    log("[build %s] %.1fs" % (which, time.time() - t0))
    path = os.path.join(HARNESS, "target", which, "release", "vharness")
    _built[which] = path
    return path


def build_both():
    with ThreadPoolExecutor(2) as ex:
        list(ex.map(build, ["ark", "min"]))


def record(which, suite, n, arg="", sd=None, timeout=1800):
    """run the harness; returns the list of event lines"""
    exe = build(which)
    env = dict(os.environ, VERIF_SEED=str(seed() if sd is None else sd))
    r = subprocess.run([exe, "record", suite, str(n), str(arg)], capture_output=True, text=True, env=env,
                       timeout=timeout)
    if r.returncode != 0:
        raise ToolError("harness record %s/%s failed rc=%s: %s" % (which, suite, r.returncode, r.stderr[-2000:]))
    return [l for l in r.stdout.splitlines() if l.strip()]


# ----------------------------------------------------------------------------- TLC
def tlc_cmd(module, cfg, metadir, workers=1, xmx="1500m", extra=None, simulate=None):
    cmd = ["java", "-Xss1g", "-XX:+UseParallelGC", "-Xmx" + xmx, "-cp", JAR, "tlc2.TLC",
           "-workers", str(workers), "-metadir", metadir, "-cleanup", "-noGenerateSpecTE",
           "-config", cfg]
    if simulate:
        cmd += ["-simulate", simulate]
    if extra:
        cmd += extra
    cmd.append(module)
    return cmd


_mc_re = re.compile(r"(\d+) states generated, (\d+) distinct states found")


def run_mc(module, cfg, workers=NCPU, xmx="8g", timeout=3600, coverage=False):
    """exhaustive toy model checking; returns dict(states, distinct, ok, out)"""
    md = os.path.join(WORK, "mc_%s_%d" % (hashlib.md5((module + cfg).encode()).hexdigest()[:10], os.getpid()))
    extra = ["-coverage", "1"] if coverage else None
    t0 = time.time()
    try:
        r = subprocess.run(tlc_cmd(module, cfg, md, workers, xmx, extra), cwd=SPEC, capture_output=True,
                           text=True, timeout=timeout)
    except subprocess.TimeoutExpired:
        raise ToolError("TLC timeout on %s %s" % (module, cfg))
    finally:
        shutil.rmtree(md, ignore_errors=True)
    out = r.stdout
    m = None
    for m in _mc_re.finditer(out):
        pass
    ok = "Model checking completed. No error has been found." in out
    res = dict(module=module, cfg=cfg, ok=ok, states=int(m.group(1)) if m else 0,
               distinct=int(m.group(2)) if m else 0, wall=time.time() - t0, out=out)
    if not ok:
        if "is violated" in out or "Invariant" in out and "violated" in out:
            res["violated"] = True
        else:
            raise ToolError("TLC error on %s %s:\n%s" % (module, cfg, out[-3000:]))
    return res


def run_mcs(jobs, par=4):
    """jobs: list of (module, cfg); run `par` at a time sharing the cores"""
    w = max(1, NCPU // par)
    with ThreadPoolExecutor(par) as ex:
        return list(ex.map(lambda j: run_mc(j[0], j[1], workers=w), jobs))


def write_seeds(n=64, nbytes=48):
    """seeded random byte strings for the plan modules (read there with ndJsonDeserialize)"""
    import random
    r = random.Random(seed())
    path = os.path.join(WORK, "plan_seeds_%d_%d.ndjson" % (seed(), os.getpid()))
    with open(path, "w") as f:
        for _ in range(n):
            f.write(json.dumps({"b": [r.randrange(256) for _ in range(nbytes)]}) + "\n")
    return path


def gen_plan(module, cfg, tag, extra_env=None, timeout=1800):
    """run a *Plan.tla module: TLC writes the plan (ndjson) to $PLAN_OUT; returns (path, n_lines)"""
    os.makedirs(WORK, exist_ok=True)
    outp = os.path.join(WORK, "plan_%s_%d.ndjson" % (tag, os.getpid()))
    if os.path.exists(outp):
        os.remove(outp)
    env = dict(os.environ, PLAN_OUT=outp, PLAN_SEEDS=write_seeds())
    if extra_env:
        env.update(extra_env)
    md = os.path.join(WORK, "pl_%s_%d" % (tag, os.getpid()))
    try:
        r = subprocess.run(tlc_cmd(module, cfg, md, 1, "4g"), cwd=SPEC, capture_output=True, text=True, env=env,
                           timeout=timeout)
    except subprocess.TimeoutExpired:
        raise ToolError("TLC timeout generating plan " + module)
    finally:
        shutil.rmtree(md, ignore_errors=True)
    if "PLAN-WRITTEN" not in r.stdout or not os.path.exists(outp):
        raise ToolError("plan generation failed (%s):\n%s" % (module, r.stdout[-3000:]))
    n = sum(1 for _ in open(outp))
    return outp, n


PLAN_OP2PROP = {"add": "C04", "sub": "C04", "neg": "C04", "dbl": "C04", "mul": "C05", "mulbig": "C05", "ell": "C07",
                "dec": "C02", "enc": "C03", "eq": "C08", "isid": "C08", "conv": "C06", "torque": None, "const": "C06",
                "sum": "C04", "msm": "C05", "h2c": "C07"}


def gen_session_plan(nproc=NCPU, num=40, depth=12):
    """spec -> implementation: TLC simulates SessionPlan.tla (random walks of the API state machine at the real
    parameters) in `nproc` single-worker processes with different seeds; returns (plan_path, n_behaviours)"""
    os.makedirs(WORK, exist_ok=True)
    def one(i):
        md = os.path.join(WORK, "sp_%d_%d" % (os.getpid(), i))
        cmd = ["java", "-Xss1g", "-XX:+UseParallelGC", "-Xmx1500m", "-cp", JAR, "tlc2.TLC", "-workers", "1",
               "-simulate", "num=%d" % num, "-depth", str(depth + 1), "-seed", str(seed() * 7919 + i), "-metadir", md,
               "-noGenerateSpecTE", "-config", "cfg/SessionPlan.cfg", "SessionPlan.tla"]
        try:
            r = subprocess.run(cmd, cwd=SPEC, capture_output=True, text=True, timeout=1800)
        finally:
            shutil.rmtree(md, ignore_errors=True)
        out = []
        for l in r.stdout.splitlines():
            m = re.match(r'<<"PLANJSON", "(.*)">>\s*$', l)
            if m:
                out.append(m.group(1).replace('\\"', '"'))
        if not out:
            raise ToolError("SessionPlan simulation produced no behaviour:\n" + r.stdout[-2000:])
        return out
    with ThreadPoolExecutor(nproc) as ex:
        res = list(ex.map(one, range(nproc)))
    path = os.path.join(WORK, "plan_session_%d.ndjson" % os.getpid())
    n = 0
    with open(path, "w") as f:
        for out in res:
            for js in sorted(set(out)):
                d = json.loads(js)
                d["steps"].insert(0, {"op": "const", "form": 1, "dst": 1})
                d["expect"].insert(0, {})
                d["id"] = n
                f.write(json.dumps(d, separators=(",", ":")) + "\n")
                n += 1
    return path, n


def replay_session_plan(c, which, plan):
    """run `vharness replay` on the plan and compare every step's observation with the specification's"""
    exe = build(which)
    r = subprocess.run([exe, "replay", plan], capture_output=True, text=True, timeout=3600)
    if r.returncode != 0:
        raise ToolError("harness replay failed: " + r.stderr[-2000:])
    plans = [json.loads(l) for l in open(plan)]
    nsteps = 0
    mism = {}
    for l in r.stdout.splitlines():
        g = json.loads(l)
        pl = plans[g["line"]]
        for i, (st, ex, got) in enumerate(zip(pl["steps"], pl["expect"], g["got"])):
            nsteps += 1
            bad = "panic" in got or any(got.get(k) != v for k, v in ex.items())
            if bad:
                prop = PLAN_OP2PROP.get(st["op"])
                key = (prop, st["op"], st.get("form"))
                if prop == c.prop:
                    sg = (which, "plan", st["op"], st.get("form", 0) if st["op"] not in ("eq", "isid", "enc") else st.get("form"))
                    if sg not in c.viol_sigs:
                        c.viol_sigs[sg] = 0
                        p = os.path.join(OUT, c.prop, "splan_%s_%d.json" % (which, len(c.violations)))
                        json.dump({"property": c.prop, "build": which, "behaviour": {"steps": pl["steps"][:i + 1], "expect": pl["expect"][:i + 1]}, "got": g["got"][:i + 1]}, open(p, "w"))
                        c.violations.append(("[%s build] SessionPlan behaviour %d step %d (%s form %s): implementation %s, specification %s"
                                             % (which, g["line"], i, st["op"], st.get("form"), json.dumps(got)[:200], json.dumps(ex)[:200]), p, sg))
                    c.viol_sigs[sg] += 1
                else:
                    k2 = "%s:plan:%s" % (prop, st["op"])
                    c.other[k2] = c.other.get(k2, 0) + 1
                break      # the rest of this behaviour runs on a diverged state
    c.events += nsteps
    c.transitions += nsteps
    c.states += nsteps
    c.traces += len(plans)
    c.forms.add("%s:plan" % which)
    c.notes.append("SessionPlan (%s): %d TLC-simulated behaviours, %d steps replayed and compared" % (which, len(plans), nsteps))


_isqrt_cache = {}


def gen_isqrt_inputs(stride):
    """Elligator inputs r0 and decoder inputs s whose inner sqrt_ratio_zeta call sees a ratio with a prescribed
    2-primary component: ratios from SqrtPlan.tla (TLC), polynomial equations solved by tools/isqrt_inputs.py.
    returns (ell_file, dec_file, stats)"""
    if stride in _isqrt_cache:
        return _isqrt_cache[stride]
    plan, n = gen_plan("SqrtPlan.tla", "cfg/SqrtPlan.cfg", "sqrt_for_isqrt")
    ell = os.path.join(WORK, "isqrt_ell_%d_%d.ndjson" % (stride, os.getpid()))
    dec = os.path.join(WORK, "isqrt_dec_%d_%d.ndjson" % (stride, os.getpid()))
    r = subprocess.run([sys.executable, os.path.join(VERIF, "tools", "isqrt_inputs.py"), plan, ell, dec, str(stride), str(seed())],
                       capture_output=True, text=True, timeout=3600)
    if r.returncode != 0:
        raise ToolError("isqrt_inputs.py failed: " + r.stderr[-2000:])
    stats = json.loads(r.stdout.strip().splitlines()[-1])
    _isqrt_cache[stride] = (ell, dec, stats)
    return _isqrt_cache[stride]


def gen_elligator_pairs(n):
    """pairs of Elligator inputs that are candidates for equal / opposite images (tools/elligator_pairs.py);
    returns (path, stats)"""
    os.makedirs(WORK, exist_ok=True)
    path = os.path.join(WORK, "ellpairs_%d_%d.ndjson" % (n, os.getpid()))
    r = subprocess.run([sys.executable, os.path.join(VERIF, "tools", "elligator_pairs.py"), path, str(n), str(seed())],
                       capture_output=True, text=True, timeout=1800)
    if r.returncode != 0:
        raise ToolError("elligator_pairs.py failed: " + r.stderr[-2000:])
    return path, json.loads(r.stdout.strip().splitlines()[-1])


def apalache_inductive(module, init, ind_init, ind_inv, safety, timeout=900):
    """unbounded safety by an inductive invariant, discharged by Apalache: Init => IndInv; IndInv /\\ Next => IndInv';
    IndInv => Safety.  returns the list of the three commands; raises ToolError on anything but EXITCODE: OK"""
    cmds = [("--init=%s" % init, "--inv=%s" % ind_inv, "--length=0"),
            ("--init=%s" % ind_init, "--inv=%s" % ind_inv, "--length=1"),
            ("--init=%s" % ind_init, "--inv=%s" % safety, "--length=0")]
    done = []
    for i, c in enumerate(cmds):
        od = os.path.join(WORK, "apa_%s_%d" % (module.replace(".tla", ""), i))
        cmd = ["apalache-mc", "check"] + list(c) + ["--out-dir=" + od, os.path.join(SPEC, module)]
        try:
            r = subprocess.run(cmd, cwd=WORK, capture_output=True, text=True, timeout=timeout)
        except subprocess.TimeoutExpired:
            raise ToolError("apalache timeout: " + " ".join(cmd))
        finally:
            shutil.rmtree(od, ignore_errors=True)
        if "EXITCODE: OK" not in r.stdout:
            raise ToolError("apalache did not discharge %s:\n%s" % (" ".join(c), r.stdout[-1500:]))
        done.append("apalache-mc check " + " ".join(c) + " " + module)
    return done


def gen_lazy_plans(cfgs):
    """union of several LazyVar plans (different call alphabets / bounds); returns (path, n, states)"""
    seqs, states = set(), 0
    for cfg in cfgs:
        path, n, st = gen_lazy_plan(cfg)
        seqs |= set(open(path).read().split())
        states += st
    seqs = sorted(seqs, key=lambda x: (len(x), x))
    path = os.path.join(WORK, "plan_lazy_%d.txt" % os.getpid())
    open(path, "w").write("\n".join(seqs) + "\n")
    return path, len(seqs), states


def gen_lazy_plan(cfg="cfg/LazyPlan.cfg"):
    """all accessor-call sequences of the LazyVar state machine (spec -> implementation): TLC explores
    LazyVar.tla without the VIEW and prints one PLANLINE per behaviour; returns (path, n, states)"""
    md = os.path.join(WORK, "pl_lazy_%d" % os.getpid())
    r = subprocess.run(tlc_cmd("LazyVar.tla", cfg, md, 1, "2g"), cwd=SPEC, capture_output=True, text=True)
    shutil.rmtree(md, ignore_errors=True)
    if "No error has been found" not in r.stdout:
        raise ToolError("LazyVar plan generation failed:\n" + r.stdout[-2000:])
    seqs = sorted(set(re.findall(r'"PLANLINE", "([CEVDNPMSTQ]+)"', r.stdout)), key=lambda x: (len(x), x))
    m = None
    for m in _mc_re.finditer(r.stdout):
        pass
    path = os.path.join(WORK, "plan_lazy_%d.txt" % os.getpid())
    open(path, "w").write("\n".join(seqs) + "\n")
    return path, len(seqs), (int(m.group(2)) if m else 0)


# ----------------------------------------------------------------------------- trace validation
KIND2PROP = {
    # Session
    "const": "C06", "ctor": "C06", "conv": "C06",
    "dec": "C02", "ell": "C07", "h2c": "C07",
    "bin": "C04", "neg": "C04", "dbl": "C04", "sum": "C04",
    "mul": "C05", "msm": "C05",
    "enc": "C03", "encf": "C03",
    "eq": "C08", "isid": "C08", "hash": "C08", "aobs": "C08", "aenc": "C03",
    "rt": "C01", "rt2": "C01",
    "sqrt": "C09", "fsqrt": "C09", "flegendre": "C09",
    # FieldAPI
    "fbin": "C10", "fun": "C10", "fpow": "C10", "ffold": "C10", "fsel": "C10", "feq": "C10", "ffrom": "C10",
    "fser": "C11", "fparse": "C11", "freduce": "C11", "fserflags": "C11", "fdeserflags": "C11", "ffromstr": "C11",
    "fdisplay": "C11", "fcmp": "C11", "fhash": "C11",
    "konst": "C17",
    "pair": "C12",
    "gadget": "C13", "lazy_new": "C13", "lazy_op": "C13", "lazy_end": "C13", "lazy_orig": "C13",
    "hint": "C14",
    "shape": "C15", "pubinput": "C15", "groth16": "C15",
    "blsgen": "C16", "blsmul": "C16", "blspair": "C16", "blsconst": "C16", "blsfrob": "C16", "blsdeser": "C16", "blspt": "C16", "blsraw": "C16", "blsmpair": "C16", "blsmsm": "C16",
}


def signature(ev):
    """the call site of an event: kind + form / entry / predicate / constructor name (+ op, + suite-specific tag)"""
    return (ev.get("k"), ev.get("op", ""), ev.get("form", ""), ev.get("entry", ""), ev.get("pred", ""),
            ev.get("name", ""), ev.get("ty", ""), ev.get("impl", ""), ev.get("field", ""), ev.get("tag", ""),
            ev.get("g", ""), ev.get("mode", ""), ev.get("circuit", ""), ev.get("grp", ""),
            # hinted events are identified by input class and hint (one report per distinct failing hint)
            ev.get("class", "") if ev.get("k") == "hint" else "", ev.get("hflag", ""),
            tuple(ev.get("hy", [])) if ev.get("k") == "hint" else ())


def split_segments(lines):
    """split a trace at reset events; every segment starts with its reset"""
    segs, cur = [], []
    for l in lines:
        if '"k":"reset"' in l and cur:
            segs.append(cur)
            cur = []
        cur.append(l)
    if cur:
        segs.append(cur)
    return segs


def _validate_chunk(args):
    """validate one chunk file; on rejection mark the event forced and go on.
    returns (n_events, rejections[list of (index, eventdict, prefix_lines)], n_tlc_runs, states)"""
    lines, module, cfg, tag, maxfix = args
    path = os.path.join(WORK, "chunk_%s_%d.ndjson" % (tag, os.getpid()))
    md = os.path.join(WORK, "tr_%s_%d" % (tag, os.getpid()))
    rej = []
    runs = 0
    states = 0
    lines = list(lines)
    while True:
        with open(path, "w") as f:
            f.write("\n".join(lines) + "\n")
        env = dict(os.environ, TRACE=path)
        runs += 1
        try:
            r = subprocess.run(tlc_cmd(module, cfg, md), cwd=SPEC, capture_output=True, text=True, env=env,
                               timeout=3600)
        except subprocess.TimeoutExpired:
            raise ToolError("TLC timeout validating chunk " + tag)
        finally:
            shutil.rmtree(md, ignore_errors=True)
        out = r.stdout
        m = re.search(r'"TRACE-REJECTED", (\d+)', out)
        mm = None
        for mm in _mc_re.finditer(out):
            pass
        if mm:
            states = max(states, int(mm.group(2)))
        if m:
            d = int(m.group(1))
            if d < 1 or d > len(lines):
                raise ToolError("bad rejection index %d in chunk %s" % (d, tag))
            ev = json.loads(lines[d - 1])
            # prefix: from the last reset before the event
            start = d - 1
            while start > 0 and '"k":"reset"' not in lines[start]:
                start -= 1
            rej.append((d, ev, lines[start:d]))
            ev2 = dict(ev)
            ev2["force"] = True
            lines[d - 1] = json.dumps(ev2, separators=(",", ":"))
            # later events of the same call form in this chunk are not examined again (they are
            # counted as skipped): one report per call form, and the rest of the trace is still checked
            sg = signature(ev)
            skipped = 0
            for j in range(d, len(lines)):
                if '"k":"%s"' % ev.get("k") in lines[j] and '"force"' not in lines[j]:
                    e3 = json.loads(lines[j])
                    if signature(e3) == sg:
                        e3["force"] = True
                        lines[j] = json.dumps(e3, separators=(",", ":"))
                        skipped += 1
            rej[-1] = rej[-1] + (skipped,)
            if len(rej) >= maxfix:
                # stop examining this chunk's remaining events of the broken segment: report what we have
                break
            continue
        if "Model checking completed. No error has been found." in out:
            break
        raise ToolError("TLC failed on chunk %s (%s):\n%s" % (tag, module, out[-3000:]))
    try:
        os.remove(path)
    except OSError:
        pass
    return (len(lines), rej, runs, states)


def validate(lines, module, cfg, tag, nchunks=NCPU, maxfix=12):
    """validate a trace (list of event lines) against a trace spec, in parallel chunks.
    returns dict(events, rejections, tlc_runs, states, chunks)"""
    if not lines:
        return dict(events=0, rejections=[], tlc_runs=0, states=0, chunks=0)
    segs = split_segments(lines)
    k = max(1, min(nchunks, len(segs)))
    chunks = [[] for _ in range(k)]
    # greedy balance by number of events, weighting expensive events
    def cost(seg):
        c = 0
        for l in seg:
            c += 30 if ('"k":"mul"' in l or '"k":"msm"' in l) else 1
        return c
    if k == 1:
        chunks[0] = list(lines)                 # one TLC run: keep the recorded order (state may span segments)
    else:
        order = sorted(range(len(segs)), key=lambda i: -cost(segs[i]))
        load = [0] * k
        for i in order:
            j = load.index(min(load))
            chunks[j].extend(segs[i])
            load[j] += cost(segs[i])
    jobs = [(c, module, cfg, "%s_%d" % (tag, i), maxfix) for i, c in enumerate(chunks) if c]
    with ThreadPoolExecutor(NCPU) as ex:
        res = list(ex.map(_validate_chunk, jobs))
    rej = []
    for (n, r, runs, st) in res:
        rej.extend(r)
    return dict(events=sum(r[0] for r in res), rejections=rej, tlc_runs=sum(r[2] for r in res),
                states=sum(r[3] for r in res), chunks=len(jobs))


# ----------------------------------------------------------------------------- known findings
def load_known():
    """parse known_findings.txt: only `finding:` lines suppress anything"""
    p = os.path.join(VERIF, "known_findings.txt")
    out = []
    if os.path.exists(p):
        for l in open(p):
            l = l.strip()
            m = re.match(r"finding:\s+property=(\S+)\s+id=(\S+)\s+match=(\{.*?\})\s+::\s+(.*)$", l)
            if m:
                out.append(dict(property=m.group(1), id=m.group(2), match=json.loads(m.group(3)),
                                what=m.group(4), status="open"))
    return out


def match_known(prop, ev, known):
    """a violation is a known finding iff an OPEN entry of the same property matches every
    field of its `match` object against the failing event"""
    for k in known:
        if k.get("status") != "open" or k.get("property") != prop:
            continue
        if all(ev.get(f) == v for f, v in k.get("match", {}).items()):
            return k
    return None


# ----------------------------------------------------------------------------- a check run
class Check:
    def __init__(self, prop, tier):
        self.prop = prop
        self.tier = tier
        self.t0 = time.time()
        self.states = 0
        self.transitions = 0
        self.traces = 0
        self.events = 0
        self.event_kinds = {}
        self.forms = set()
        self.violations = []     # (what, replay_path[, signature])
        self.viol_sigs = {}
        self.internal_rejections = []
        self.known_hits = {}
        self.other = {}          # rejections attributed to other properties (reported by their own checks)
        self.samples = []
        self.mc_runs = []
        self.notes = []
        self.tlc_cmds = set()
        self.exhaustive_parts = []
        self.known = load_known()
        os.makedirs(os.path.join(OUT, prop), exist_ok=True)
        os.makedirs(WORK, exist_ok=True)

    # -- toy model checking
    def mc(self, jobs, par=4):
        for res in run_mcs(jobs, par):
            self.states += res["distinct"]
            self.transitions += res["states"]
            self.mc_runs.append(dict(module=res["module"], cfg=res["cfg"], states=res["states"],
                                     distinct=res["distinct"], wall_s=round(res["wall"], 1)))
            self.tlc_cmds.add("tlc -workers N -config %s %s" % (res["cfg"], res["module"]))
            if res.get("violated"):
                p = os.path.join(OUT, self.prop, "mc_%s.txt" % os.path.basename(res["cfg"]))
                open(p, "w").write(res["out"])
                self.violations.append(("toy model %s %s: invariant violated" % (res["module"], res["cfg"]), p))

    # -- trace validation
    def trace(self, which, suite, n, arg="", module="SessionTrace.tla", cfg="cfg/SessionTrace.cfg", kinds=None,
              sd=None, nchunks=NCPU):
        lines = record(which, suite, n, arg, sd)
        return self.validate_lines(lines, "%s_%s" % (which, suite), module, cfg, kinds, which, nchunks)

    def validate_lines(self, lines, tag, module="SessionTrace.tla", cfg="cfg/SessionTrace.cfg", kinds=None,
                       which="", nchunks=NCPU):
        t0 = time.time()
        res = validate(lines, module, cfg, "%s_%s" % (self.prop, tag), nchunks=nchunks)
        self.traces += res["chunks"]
        self.events += res["events"]
        self.states += res["states"]
        self.transitions += res["events"]
        self.tlc_cmds.add("TRACE=<chunk> tlc -workers 1 -config %s %s" % (cfg, module))
        for l in lines:
            try:
                e = json.loads(l)
            except ValueError:
                continue
            k = e.get("k")
            self.event_kinds[k] = self.event_kinds.get(k, 0) + 1
            for f in ("form", "entry", "pred", "name", "g", "circuit"):
                if f in e:
                    self.forms.add("%s:%s:%s" % (which, k, e[f]))
        if lines and len(self.samples) < 6:
            mid = lines[len(lines) // 2]
            self.samples.append(json.loads(mid) if len(mid) < 4000 else {"k": json.loads(mid).get("k")})
        for rj in res["rejections"]:
            (idx, ev, prefix) = rj[:3]
            self.classify(ev, prefix, tag, kinds, module, cfg, which, rj[3] if len(rj) > 3 else 0)
        log("[%s] %s: %d events, %d chunks, %d rejections, %.1fs" %
            (self.prop, tag, res["events"], res["chunks"], len(res["rejections"]), time.time() - t0))
        return res

    def classify(self, ev, prefix, tag, kinds, module, cfg, which="", skipped=0):
        kind = ev.get("k")
        prop = KIND2PROP.get(kind, self.prop)
        if ev.get("k") in ("rescale", "torque", "restore", "reset"):
            # a test-only hook event (rescaling / other coset member) is rejected only when the register it
            # starts from already holds garbage installed by an earlier, already reported rejection (cascade);
            # if nothing else was rejected in the whole run this is a harness fault (checked in finish)
            self.internal_rejections.append(json.dumps(ev)[:300])
            return
        if kinds is not None and kind in kinds:
            prop = self.prop
        if prop != self.prop:
            key = "%s:%s:%s" % (prop, kind, ev.get("form", ev.get("entry", ev.get("pred", ev.get("name", "")))))
            self.other[key] = self.other.get(key, 0) + 1
            return
        kf = match_known(prop, ev, self.known)
        if kf is not None:
            self.known_hits[kf["id"]] = self.known_hits.get(kf["id"], 0) + 1
            return
        sg = (which,) + signature(ev)
        if sg in self.viol_sigs:
            self.viol_sigs[sg] += 1 + skipped
            return
        self.viol_sigs[sg] = 1 + skipped
        n = len(self.violations)
        p = os.path.join(OUT, self.prop, "viol_%s_%d.ndjson" % (tag, n))
        with open(p, "w") as f:
            f.write(json.dumps({"k": "meta", "module": module, "cfg": cfg, "property": self.prop}) + "\n")
            f.write("\n".join(prefix) + "\n")
        what = "[%s build] %s event rejected by the specification: %s" % (
            which, kind, json.dumps({k: v for k, v in ev.items() if k not in ("rep",)})[:400])
        self.violations.append((what, p, sg))

    # -- finishing
    def finish(self, level="model_checking", rule="", extra=None, assumptions=None):
        wall = time.time() - self.t0
        if self.internal_rejections and not (self.violations or self.known_hits or self.other):
            raise ToolError("harness-internal event rejected with no other rejection: " + self.internal_rejections[0])
        if self.internal_rejections:
            self.notes.append("%d hook events (rescale/torque) rejected after an already reported rejection (cascade)" % len(self.internal_rejections))
        for kid, cnt in self.known_hits.items():
            k = [x for x in self.known if x["id"] == kid][0]
            print("KNOWN-FINDING: property=%s %s (%d occurrence(s) this run)" % (self.prop, k["what"], cnt))
        for v in self.violations:
            what, path = v[0], v[1]
            print("VIOLATION property=%s replay=%s" % (self.prop, path))
            cnt = self.viol_sigs.get(v[2], 1) if len(v) > 2 else 1
            print("  " + what + ("  (%d event(s) of this call form rejected or skipped)" % cnt if cnt > 1 else ""))
        cov = dict(
            states=max(self.states, 0),
            transitions=max(self.transitions, 0),
            traces_validated_against_impl=self.traces,
            events_validated=self.events,
            event_kinds=self.event_kinds,
            evaluations=self.events + self.transitions,
            distinct_nontrivial=len(self.forms),
            rule=rule or "distinct (build, event kind, call form / entry point) combinations exercised in validated traces; "
                         "states/transitions are summed over the exhaustive toy-model runs and the trace-validation runs",
            samples=self.samples[:6] or [{"note": "no trace events in this run"}],
            toy_model_runs=self.mc_runs,
            checker_cmd="; ".join(sorted(self.tlc_cmds)),
            trusted_base=["TLC 1.8.0 (tla2tools.jar)", "BN.class (java.math.BigInteger evaluator of BN.tla, cross-checked by BNSelfTest)",
                          "harness event logging (harness/src)", "rustc/cargo"],
            exhaustive=False,
            exhaustive_parts=self.exhaustive_parts,
            known_findings_hit=self.known_hits,
            rejections_attributed_to_other_properties=self.other,
            notes=self.notes,
        )
        if extra:
            cov.update(extra)
        ev = dict(property_id=self.prop, tier=self.tier, seed=seed(), level=level, coverage=cov,
                  assumptions=assumptions or [], wall_s=round(wall, 1), violations=len(self.violations))
        # scratch files of this process (plans, seeds, generated inputs)
        suffixes = ("_%d.ndjson" % os.getpid(), "_%d.txt" % os.getpid())
        for fn in os.listdir(WORK):
            if fn.endswith(suffixes):
                try:
                    os.remove(os.path.join(WORK, fn))
                except OSError:
                    pass
        os.makedirs(EVID, exist_ok=True)
        with open(os.path.join(EVID, self.prop + ".json"), "w") as f:
            json.dump(ev, f, indent=1, sort_keys=True)
        log("[%s] done in %.1fs: %d violation(s), %d known finding(s)" % (self.prop, wall, len(self.violations), len(self.known_hits)))
        return 1 if self.violations else 0
