#!/usr/bin/env python3
"""Run registered checks against a seeded change: apply <dir>/patch.diff to /repo, run ./check for the
given properties (quick tier), ALWAYS restore /repo afterwards.  usage: seedrun.py <seed_dir> <ID> [<ID>...]"""
import subprocess, sys, os, json, time
VERIF = os.path.dirname(os.path.dirname(os.path.abspath(__file__)))
def main():
    d = os.path.abspath(sys.argv[1]); props = sys.argv[2:]
    patch = os.path.join(d, "patch.diff")
    st = subprocess.run(["git", "-C", "/repo", "status", "--porcelain"], capture_output=True, text=True).stdout.strip()
    if st:
        print("refusing: /repo has local changes:\n" + st); return 2
    r = subprocess.run(["git", "-C", "/repo", "apply", patch], capture_output=True, text=True)
    if r.returncode != 0:
        print("patch does not apply:", r.stderr); return 2
    res = {}
    try:
        for p in props:
            t0 = time.time()
            r = subprocess.run(["./check", p, "--tier", "quick"], cwd=VERIF, capture_output=True, text=True)
            viol = [l for l in r.stdout.splitlines() if l.startswith("VIOLATION") or l.startswith("  [") or l.startswith("TOOL-ERROR")]
            res[p] = dict(exit=r.returncode, wall=round(time.time() - t0), lines=viol[:8])
            print("%s exit=%d (%ds)" % (p, r.returncode, time.time() - t0))
            for l in viol[:6]:
                print("   " + l[:300])
    finally:
        subprocess.run(["git", "-C", "/repo", "checkout", "--", "."], check=True)
        # files a patch ADDED are untracked after the checkout: remove them too (source tree only)
        subprocess.run(["git", "-C", "/repo", "clean", "-fdq", "--", "src", "tests", "benches"], check=True)
    json.dump(res, open(os.path.join(d, "seedrun_result.json"), "w"), indent=1)
    return 0
if __name__ == "__main__":
    sys.exit(main())
